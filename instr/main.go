// vinstr rewrites the non-test sources of the nitro packages (from the CURRENT
// working tree of the repository) for controlled execution and emits a
// `go build -overlay` file. Nothing in the repository is modified.
//
//	vinstr <repo> <outdir> <rtdir> [src=dst ...]
//
// Layer 1: import substitution (sync/atomic, sync, math/rand, time, runtime, os,
// io/ioutil -> shims under github.com/couchbase/nitro/zzverif/...).
// Layer 2: AST rewriting of go statements and channel operations into calls
// of the controlled runtime (driven by go/types).
package main

import (
	"bytes"
	"encoding/json"
	"fmt"
	"go/ast"
	"go/format"
	"go/build"
	"go/importer"
	"go/parser"
	"go/token"
	"go/types"
	"os"
	"path/filepath"
	"sort"
	"strconv"
	"strings"

	"golang.org/x/tools/go/ast/astutil"
)

const shimRoot = "github.com/couchbase/nitro/zzverif/"

var importMap = map[string]string{
	"sync/atomic": shimRoot + "atomic",
	"sync":        shimRoot + "sync",
	"math/rand":   shimRoot + "rand",
	"time":        shimRoot + "time",
	"runtime":     shimRoot + "runtime",
	"os":          shimRoot + "os",
	"io/ioutil":   shimRoot + "ioutil",
}

var defaultName = map[string]string{"sync/atomic": "atomic", "sync": "sync", "math/rand": "rand", "time": "time", "runtime": "runtime", "os": "os", "io/ioutil": "ioutil"}

type rewriter struct {
	fset  *token.FileSet
	info  *types.Info
	n     int
	used  bool // vrt referenced in this file
	fname string
	fine  bool // insert plain-store scheduling points (packages with shared memory)
}

func (r *rewriter) tmp(p string) *ast.Ident { r.n++; return ast.NewIdent(fmt.Sprintf("_v%s%d", p, r.n)) }

func vrtSel(name string) ast.Expr {
	return &ast.SelectorExpr{X: ast.NewIdent("vrt"), Sel: ast.NewIdent(name)}
}

func call(fn ast.Expr, args ...ast.Expr) *ast.CallExpr { return &ast.CallExpr{Fun: fn, Args: args} }

func (r *rewriter) isChan(e ast.Expr) bool {
	if tv, ok := r.info.Types[e]; ok && tv.Type != nil {
		_, is := tv.Type.Underlying().(*types.Chan)
		return is
	}
	return false
}

func isBuiltin(info *types.Info, id *ast.Ident, name string) bool {
	if id.Name != name {
		return false
	}
	if obj, ok := info.Uses[id]; ok {
		_, b := obj.(*types.Builtin)
		return b
	}
	return true
}

// rewriteStmt returns the replacement for a statement (possibly a block), or nil if unchanged.
func (r *rewriter) rewriteStmt(s ast.Stmt) ast.Stmt {
	switch st := s.(type) {
	case *ast.GoStmt:
		r.used = true
		// bind function value and arguments now, run later
		var binds []ast.Stmt
		c := st.Call
		var fn ast.Expr = c.Fun
		if _, isLit := c.Fun.(*ast.FuncLit); !isLit {
			f := r.tmp("f")
			binds = append(binds, &ast.AssignStmt{Lhs: []ast.Expr{f}, Tok: token.DEFINE, Rhs: []ast.Expr{c.Fun}})
			fn = f
		}
		var args []ast.Expr
		for _, a := range c.Args {
			t := r.tmp("a")
			binds = append(binds, &ast.AssignStmt{Lhs: []ast.Expr{t}, Tok: token.DEFINE, Rhs: []ast.Expr{a}})
			args = append(args, t)
		}
		inner := &ast.CallExpr{Fun: fn, Args: args, Ellipsis: c.Ellipsis}
		lit := &ast.FuncLit{Type: &ast.FuncType{Params: &ast.FieldList{}}, Body: &ast.BlockStmt{List: []ast.Stmt{&ast.ExprStmt{X: inner}}}}
		binds = append(binds, &ast.ExprStmt{X: call(vrtSel("Go"), lit)})
		return &ast.BlockStmt{List: binds}
	case *ast.SendStmt:
		r.used = true
		return &ast.ExprStmt{X: call(vrtSel("ChanSend"), st.Chan, st.Value)}
	case *ast.RangeStmt:
		if !r.isChan(st.X) {
			return nil
		}
		r.used = true
		ch := r.tmp("ch")
		ok := r.tmp("ok")
		var pre []ast.Stmt
		pre = append(pre, &ast.AssignStmt{Lhs: []ast.Expr{ch}, Tok: token.DEFINE, Rhs: []ast.Expr{st.X}})
		var key ast.Expr = ast.NewIdent("_")
		if st.Key != nil {
			key = st.Key
			if st.Tok == token.DEFINE {
				pre = append(pre, &ast.AssignStmt{Lhs: []ast.Expr{st.Key}, Tok: token.DEFINE, Rhs: []ast.Expr{call(vrtSel("ZeroOf"), ch)}})
				pre = append(pre, &ast.AssignStmt{Lhs: []ast.Expr{ast.NewIdent("_")}, Tok: token.ASSIGN, Rhs: []ast.Expr{st.Key}})
			}
		}
		body := []ast.Stmt{
			&ast.DeclStmt{Decl: &ast.GenDecl{Tok: token.VAR, Specs: []ast.Spec{&ast.ValueSpec{Names: []*ast.Ident{ok}, Type: ast.NewIdent("bool")}}}},
			&ast.AssignStmt{Lhs: []ast.Expr{key, ok}, Tok: token.ASSIGN, Rhs: []ast.Expr{call(vrtSel("ChanRecv2"), ch)}},
			&ast.IfStmt{Cond: &ast.UnaryExpr{Op: token.NOT, X: ok}, Body: &ast.BlockStmt{List: []ast.Stmt{&ast.BranchStmt{Tok: token.BREAK}}}},
		}
		body = append(body, st.Body.List...)
		loop := &ast.ForStmt{Body: &ast.BlockStmt{List: body}}
		pre = append(pre, loop)
		return &ast.BlockStmt{List: pre}
	case *ast.SelectStmt:
		r.used = true
		var pre []ast.Stmt
		var cases []ast.Expr
		sw := &ast.SwitchStmt{Body: &ast.BlockStmt{}}
		hasDefault := false
		idx := 0
		for _, cc := range st.Body.List {
			comm := cc.(*ast.CommClause)
			if comm.Comm == nil {
				hasDefault = true
				sw.Body.List = append(sw.Body.List, &ast.CaseClause{List: nil, Body: comm.Body})
				continue
			}
			c := r.tmp("c")
			var body []ast.Stmt
			switch cm := comm.Comm.(type) {
			case *ast.SendStmt:
				pre = append(pre, &ast.AssignStmt{Lhs: []ast.Expr{c}, Tok: token.DEFINE, Rhs: []ast.Expr{call(vrtSel("NewSend"), cm.Chan, cm.Value)}})
			case *ast.ExprStmt: // <-ch
				ue := cm.X.(*ast.UnaryExpr)
				pre = append(pre, &ast.AssignStmt{Lhs: []ast.Expr{c}, Tok: token.DEFINE, Rhs: []ast.Expr{call(vrtSel("NewRecv"), ue.X)}})
			case *ast.AssignStmt: // v := <-ch  |  v, ok := <-ch  | = forms
				ue := cm.Rhs[0].(*ast.UnaryExpr)
				pre = append(pre, &ast.AssignStmt{Lhs: []ast.Expr{c}, Tok: token.DEFINE, Rhs: []ast.Expr{call(vrtSel("NewRecv"), ue.X)}})
				rhs := []ast.Expr{&ast.SelectorExpr{X: c, Sel: ast.NewIdent("Val")}}
				if len(cm.Lhs) == 2 {
					rhs = append(rhs, &ast.SelectorExpr{X: c, Sel: ast.NewIdent("Ok")})
				}
				body = append(body, &ast.AssignStmt{Lhs: cm.Lhs, Tok: cm.Tok, Rhs: rhs})
				if cm.Tok == token.DEFINE {
					for _, l := range cm.Lhs {
						if id, ok := l.(*ast.Ident); ok && id.Name != "_" {
							body = append(body, &ast.AssignStmt{Lhs: []ast.Expr{ast.NewIdent("_")}, Tok: token.ASSIGN, Rhs: []ast.Expr{ast.NewIdent(id.Name)}})
						}
					}
				}
			}
			cases = append(cases, c)
			body = append(body, comm.Body...)
			sw.Body.List = append(sw.Body.List, &ast.CaseClause{List: []ast.Expr{&ast.BasicLit{Kind: token.INT, Value: strconv.Itoa(idx)}}, Body: body})
			idx++
		}
		args := []ast.Expr{ast.NewIdent(strconv.FormatBool(hasDefault))}
		args = append(args, cases...)
		sw.Tag = call(vrtSel("Select"), args...)
		pre = append(pre, sw)
		return &ast.BlockStmt{List: pre}
	}
	return nil
}

// sharedStore reports whether an assignment target may be memory shared between goroutines:
// a dereference, a field reached through a pointer, or a slice element.
func (r *rewriter) sharedStore(e ast.Expr) bool {
	for {
		switch x := e.(type) {
		case *ast.ParenExpr:
			e = x.X
		case *ast.StarExpr:
			return true
		case *ast.SelectorExpr:
			if tv, ok := r.info.Types[x.X]; ok && tv.Type != nil {
				if _, isPtr := tv.Type.Underlying().(*types.Pointer); isPtr {
					return true
				}
			}
			e = x.X
		case *ast.IndexExpr:
			if tv, ok := r.info.Types[x.X]; ok && tv.Type != nil {
				switch tv.Type.Underlying().(type) {
				case *types.Slice, *types.Pointer:
					return true
				case *types.Map:
					return false
				}
			}
			e = x.X
		default:
			return false
		}
	}
}

// plainStores inserts a (normally inactive) scheduling point before every plain store to possibly
// shared memory, so that "fine" explorations can preempt between an atomic read and a plain write.
func (r *rewriter) plainStores(f *ast.File) {
	astutil.Apply(f, func(c *astutil.Cursor) bool {
		if c.Index() < 0 {
			return true
		}
		switch c.Parent().(type) {
		case *ast.BlockStmt, *ast.CaseClause, *ast.CommClause:
		default:
			return true
		}
		shared := false
		switch n := c.Node().(type) {
		case *ast.AssignStmt:
			if n.Tok == token.DEFINE {
				return true
			}
			for _, l := range n.Lhs {
				if r.sharedStore(l) {
					shared = true
				}
			}
		case *ast.IncDecStmt:
			shared = r.sharedStore(n.X)
		}
		if shared {
			r.used = true
			c.InsertBefore(&ast.ExprStmt{X: call(vrtSel("PlainStore"))})
		}
		return true
	}, nil)
}

func (r *rewriter) file(f *ast.File) {
	if r.fine {
		r.plainStores(f)
	}
	// statements first (post-order so nested constructs are rewritten before their parents move them)
	astutil.Apply(f, nil, func(c *astutil.Cursor) bool {
		switch n := c.Node().(type) {
		case ast.Stmt:
			if ls, ok := n.(*ast.LabeledStmt); ok {
				// keep the label on the loop that replaces a labelled range statement
				if rep := r.rewriteStmt(ls.Stmt); rep != nil {
					if blk, ok := rep.(*ast.BlockStmt); ok {
						if _, isFor := blk.List[len(blk.List)-1].(*ast.ForStmt); isFor {
							blk.List[len(blk.List)-1] = &ast.LabeledStmt{Label: ls.Label, Stmt: blk.List[len(blk.List)-1]}
							c.Replace(blk)
							return true
						}
					}
					ls.Stmt = rep
				}
				return true
			}
			if _, inSelect := c.Parent().(*ast.CommClause); inSelect && c.Name() == "Comm" {
				return true // handled by the enclosing select
			}
			if _, labelled := c.Parent().(*ast.LabeledStmt); labelled {
				return true
			}
			if rep := r.rewriteStmt(n); rep != nil {
				c.Replace(rep)
			}
		}
		return true
	})
	// expressions: <-ch, v,ok := <-ch, close(ch), len(ch)
	astutil.Apply(f, func(c *astutil.Cursor) bool {
		switch n := c.Node().(type) {
		case *ast.AssignStmt:
			if len(n.Lhs) == 2 && len(n.Rhs) == 1 {
				if ue, ok := n.Rhs[0].(*ast.UnaryExpr); ok && ue.Op == token.ARROW {
					r.used = true
					n.Rhs[0] = call(vrtSel("ChanRecv2"), ue.X)
				}
			}
		case *ast.ValueSpec:
			if len(n.Names) == 2 && len(n.Values) == 1 {
				if ue, ok := n.Values[0].(*ast.UnaryExpr); ok && ue.Op == token.ARROW {
					r.used = true
					n.Values[0] = call(vrtSel("ChanRecv2"), ue.X)
				}
			}
		}
		return true
	}, func(c *astutil.Cursor) bool {
		switch n := c.Node().(type) {
		case *ast.UnaryExpr:
			if n.Op == token.ARROW {
				r.used = true
				c.Replace(call(vrtSel("ChanRecv"), n.X))
			}
		case *ast.CallExpr:
			if id, ok := n.Fun.(*ast.Ident); ok && len(n.Args) == 1 {
				if isBuiltin(r.info, id, "close") {
					r.used = true
					n.Fun = vrtSel("ChanClose")
				} else if isBuiltin(r.info, id, "len") && r.isChan(n.Args[0]) {
					r.used = true
					n.Fun = vrtSel("ChanLen")
				}
			}
		}
		return true
	})
	// imports
	for _, imp := range f.Imports {
		p, _ := strconv.Unquote(imp.Path.Value)
		if np, ok := importMap[p]; ok {
			if imp.Name == nil {
				imp.Name = ast.NewIdent(defaultName[p])
			}
			imp.Path.Value = strconv.Quote(np)
		}
	}
	if r.used {
		astutil.AddNamedImport(r.fset, f, "vrt", shimRoot+"vrt")
	}
}

func main() {
	repo, out := os.Args[1], os.Args[2]
	rtdir := os.Args[3]
	overlay := map[string]string{}
	pkgs := []struct{ dir, path string }{{".", "github.com/couchbase/nitro"}, {"skiplist", "github.com/couchbase/nitro/skiplist"}, {"nodetable", "github.com/couchbase/nitro/nodetable"}}
	cwd, _ := os.Getwd()
	for _, p := range pkgs {
		fset := token.NewFileSet()
		dir := filepath.Join(repo, p.dir)
		bp, err := build.Default.ImportDir(dir, 0)
		if err != nil {
			fmt.Fprintln(os.Stderr, "ERROR: go/build", dir, err)
			os.Exit(2)
		}
		{
			var files []*ast.File
			var names []string
			gofiles := append(append([]string{}, bp.GoFiles...), bp.CgoFiles...)
			sort.Strings(gofiles)
			for _, fn := range gofiles {
				name := filepath.Join(dir, fn)
				f, err := parser.ParseFile(fset, name, nil, parser.ParseComments)
				if err != nil {
					fmt.Fprintln(os.Stderr, "ERROR: parse", err)
					os.Exit(2)
				}
				files = append(files, f)
				names = append(names, name)
			}
			info := &types.Info{Types: map[ast.Expr]types.TypeAndValue{}, Uses: map[*ast.Ident]types.Object{}}
			os.Chdir(dir)
			conf := types.Config{Importer: importer.ForCompiler(fset, "source", nil), Error: func(e error) {}}
			conf.Check(p.path, fset, files, info)
			os.Chdir(cwd)
			for i, f := range files {
				r := &rewriter{fset: fset, info: info, fname: names[i], fine: p.dir != "nodetable"}
				r.file(f)
				if r.used {
					// drop free-floating comments of rewritten files (positions are meaningless after rewriting);
					// keep everything up to the package clause (build constraints, licence)
					var keep []*ast.CommentGroup
					for _, cg := range f.Comments {
						if cg.End() < f.Package {
							keep = append(keep, cg)
						}
					}
					f.Comments = keep
				}
				var buf bytes.Buffer
				if err := format.Node(&buf, fset, f); err != nil {
					fmt.Fprintln(os.Stderr, "ERROR: print", names[i], err)
					os.Exit(2)
				}
				rel, _ := filepath.Rel(repo, names[i])
				dst := filepath.Join(out, rel)
				os.MkdirAll(filepath.Dir(dst), 0755)
				os.WriteFile(dst, buf.Bytes(), 0644)
				overlay[names[i]] = dst
			}
		}
	}
	// runtime packages as virtual packages inside the nitro module
	filepath.Walk(rtdir, func(path string, fi os.FileInfo, err error) error {
		if err == nil && !fi.IsDir() && strings.HasSuffix(path, ".go") {
			rel, _ := filepath.Rel(rtdir, path)
			overlay[filepath.Join(repo, "zzverif", rel)] = path
		}
		return nil
	})
	for _, extra := range os.Args[4:] { // src=dst accessor files
		kv := strings.SplitN(extra, "=", 2)
		overlay[kv[1]] = kv[0]
	}
	bs, _ := json.MarshalIndent(map[string]interface{}{"Replace": overlay}, "", " ")
	os.WriteFile(filepath.Join(out, "overlay.json"), bs, 0644)
}
