#!/usr/bin/env python3
# Regenerates /verif/MANIFEST.json from the table below (kept in sync with the checks that exist).
import json
props=[json.loads(l) for l in open('/verif/properties.jsonl')]
TECH="stateless model checking of the real code: exhaustive enumeration of schedules / operation sequences / fault positions under a controlled scheduler, within stated bounds"
NOTE="Trusted: the overlay instrumentation preserves semantics (fidelity run + determinism guard); Go atomics explored as sequentially consistent; plain racy accesses atomic with the step containing them; bounds as stated in the evidence file."
claimed={
 "C13":("model_checking","All schedules with <=2 (quick) / <=3 (thorough, single-op pairs) preemptions of 500+ closed 2-3 thread drivers over {Insert(k,level), Delete(k), DeleteNode(handle), Lookup(k)} on 3 colliding keys from 5 initial contents, Go-managed and user-managed nodes; every call/return history plus a final quiescent scan is checked for linearizability against an ordered set with node identity (brute-force Wing-Gong search).","3.C13"),
 "C14":("model_checking","Same executions as C13: at the quiescent end of every one the structure walker (per-level strict order, acyclicity, sub-sequence, height completeness, nothing linked above its height) and the reconciliation of NodeCount / NodeDistribution / SoftDeletes / Memory / allocs-frees / allocator live set run.","3.C14"),
 "C15":("model_checking","All schedules with <=2/<=3 preemptions of an iterator thread (SeekFirst/Seek(x), Next to the end; plain, refresh interval 1/2, explicit Refresh, Pause/Resume) against 1-2 mutator threads around stable items; only definite violations are flagged (membership probes decided by linearizability of each key's history over the scan interval).","3.C15"),
 "C16":("model_checking","Every schedule with at most 2 (quick) / 3 (thorough) preemptions of 64+ closed 2-3 thread drivers over {Acquire, Release, FlushSession} on the real access barrier (its internal free queue included, each atomic step a scheduling point) is executed and the safety oracle (destructor only after earlier accessors released, in flush order, once; no accessor in a destructed session; nitro's own reclamation panic) is evaluated at every destructor call and every Acquire return.","3.C16"),
 "C17":("model_checking","Same drivers and schedules as C16; at quiescence of every execution (all tokens released, all calls returned) the number of destructor calls must equal the number of FlushSession calls and nothing may be queued.","3.C17"),
}
import os
extra=os.path.join(os.path.dirname(__file__),'claimed_extra.json')
if os.path.exists(extra):
    for k,v in json.load(open(extra)).items():
        claimed[k]=tuple(v)
checks=[]
for p in props:
    i=p['id']
    if i in claimed:
        cat,text,ref=claimed[i]
        checks.append({
          "property_id":i,
          "quick_cmd":"bin/vcheck %s --tier quick"%i,
          "thorough_cmd":"bin/vcheck %s --tier thorough"%i,
          "evidence_file":"/verif/evidence/%s.json"%i,
          "replay_cmd_template":"bin/vcheck replay {path} --trace",
          "engine":"vrt-explorer",
          "level_claimed":{"category":cat,"text":text,"design_ref":ref},
          "level_note":NOTE,
          "technique":TECH
        })
na=[{"property_id":p['id'],"reason":"check not built yet (planned, see DESIGN.md section 3)"} for p in props if p['id'] not in claimed]
m={
 "version":1,
 "setup_cmd":"sh /verif/setup.sh",
 "hooks":{"guard":"overlay (go build -overlay generated at check time; no hook source is committed to /repo)","enable":"bin/vcheck instruments /repo's current working tree into a temp dir and builds with go build -overlay <tmp>/overlay.json; shims are mapped virtually under /repo/zzverif/","baseline_off_cmd":"cd /repo && GOFLAGS=-mod=mod go test -vet=off -count=1 -timeout 25m ./...","source_commits":[],"add_only":True},
 "engines":[{"name":"vrt-explorer","path":"/verif/rt/vrt","serves_properties":sorted(claimed),"kind_free_text":"hand-written stateless model checker for Go: cooperative scheduler owning every sync/atomic, mutex, waitgroup, channel, select, go statement, sleep and file-system step of the instrumented nitro packages; DFS over choice sequences with preemption or delay bounding; sharded over worker processes"}],
 "checks":checks,
 "not_applicable":na,
 "notes":"All verdicts come from exhaustive bounded enumeration of executions of the real code. Exit 2 + 'ERROR:' means the machinery could not decide (instrumented build failed, nondeterminism). Known findings and repaired defects: /verif/KNOWN_FINDINGS.txt."
}
json.dump(m,open('/verif/MANIFEST.json','w'),indent=1)
print(len(checks),"claimed,",len(na),"not applicable")
