#!/bin/sh
# usage: tools/confirm_seed.sh <ID> <patchfile> <demo_test.go> <pkgdir(. or skiplist or nodetable)> <demo run regex>
# Confirms in the scratch worktree /tmp/seed/<ID>: the change compiles, the package's existing tests pass with it,
# the demonstration fails with it and passes without it. Writes /tmp/seed/confirm/<ID>-<patchname>.log
export GOFLAGS=-mod=mod GOPROXY=off GOSUMDB=off GOTOOLCHAIN=local
id=$1; patch=$2; demo=$3; pkg=$4; re=$5
wt=/tmp/seed/$id
name=$(basename "$patch" .diff)
mkdir -p /tmp/seed/confirm
log=/tmp/seed/confirm/$id-$name.log
: > "$log"
cd "$wt" || exit 2
git checkout -q -- . ; git clean -fdq
scratch=$(mktemp -d)
run_demo() { # $1 label
  n=0
  for f in $(echo "$demo" | tr ',' ' '); do n=$((n+1)); cp "$f" "$wt/$pkg/zz_demo${n}_test.go"; done
  (cd "$wt/$pkg" && go test -vet=off -c -o "$scratch/demo.test" . >>"$log" 2>&1)
  rm -f "$wt/$pkg"/zz_demo*_test.go
  (cd "$scratch" && timeout 900 ./demo.test -test.count=1 -test.run "$re" >"$scratch/demo.out" 2>&1); rc=$?
  echo "DEMO[$1] exit=$rc $(tail -1 "$scratch/demo.out")" >>"$log"
  return $rc
}
run_demo clean; clean_rc=$?
git apply "$patch" || { echo "APPLY FAILED" >>"$log"; exit 2; }
go build ./... >>"$log" 2>&1 && echo "BUILD ok" >>"$log" || echo "BUILD FAILED" >>"$log"
run_demo patched; patched_rc=$?
# full existing suite of the changed package(s), run from a scratch dir
dirs=$(git diff --name-only | xargs -n1 dirname | sort -u)
case "$dirs" in *skiplist*) dirs="$dirs ." ;; esac
for p in $(echo $dirs | tr ' ' '\n' | sort -u); do
  (cd "$wt/$p" && go test -vet=off -c -o "$scratch/suite.test" . >>"$log" 2>&1)
  (cd "$scratch" && timeout 3000 ./suite.test -test.count=1 -test.timeout 45m >"$scratch/suite.out" 2>&1); rc=$?
  echo "SUITE[$p] exit=$rc $(grep -c '^--- FAIL' "$scratch/suite.out") failures: $(grep '^--- FAIL' "$scratch/suite.out" | tr '\n' ' ')" >>"$log"
done
git checkout -q -- . ; git clean -fdq
rm -rf "$scratch"
echo "SUMMARY clean_demo=$clean_rc patched_demo=$patched_rc" >>"$log"
