#!/bin/sh
# Runs every change of tools/detection_table.txt (in a scratch worktree, /repo is never touched) against the
# listed quick checks and writes /verif/seeded/detection.json. Long: about 1-2 minutes per line and check.
cd /verif || exit 2
out=/verif/seeded/detection.json
echo "[" > $out.tmp
first=1
while read patch ids; do
  [ -z "$patch" ] && continue
  wt=$(mktemp -d /tmp/detect-XXXXXX)
  git -C /repo worktree add -q --detach "$wt" HEAD || exit 2
  if git -C "$wt" apply /verif/$patch; then
    for id in $ids; do
      o=$(VERIF_REPO="$wt" VERIF_NO_EVIDENCE=1 bin/vcheck $id --tier quick 2>/dev/null); code=$?
      job=$(echo "$o" | grep -m1 '^  violation:' | sed 's/^  violation: //' | cut -c1-200 | sed 's/\\/\\\\/g; s/"/\\"/g')
      [ $first -eq 1 ] || echo "," >> $out.tmp; first=0
      printf ' {"change":"%s","check":"%s","exit":%d,"detected":%s,"first_violation":"%s"}' "$patch" "$id" "$code" "$([ $code -eq 1 ] && echo true || echo false)" "$job" >> $out.tmp
      echo "$patch $id exit=$code"
    done
  else
    echo "cannot apply $patch"
  fi
  git -C /repo worktree remove --force "$wt" 2>/dev/null; rm -rf "$wt"; git -C /repo worktree prune
done < /verif/tools/detection_table.txt
echo "" >> $out.tmp; echo "]" >> $out.tmp; mv $out.tmp $out
