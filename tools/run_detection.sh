#!/bin/sh
# Applies every change of tools/detection_table.txt to /repo, runs the listed quick checks (no evidence
# written), reverts, and writes /verif/seeded/detection.json. Long (about 1-2 minutes per line and check).
cd /verif || exit 2
out=/verif/seeded/detection.json
echo "[" > $out.tmp
first=1
while read patch ids; do
  [ -z "$patch" ] && continue


  cd /verif
  for id in $ids; do
    o=$(VERIF_NO_EVIDENCE=1 bin/vcheck $id --tier quick 2>/dev/null); code=$?
    job=$(echo "$o" | grep -m1 '^  violation:' | sed 's/^  violation: //' | cut -c1-200 | sed 's/"/\\"/g')
    [ $first -eq 1 ] || echo "," >> $out.tmp; first=0
    printf ' {"change":"%s","check":"%s","exit":%d,"detected":%s,"first_violation":"%s"}' "$patch" "$id" "$code" "$([ $code -eq 1 ] && echo true || echo false)" "$job" >> $out.tmp
    echo "$patch $id exit=$code"
  done
  git -C /repo checkout -- . ; git -C /repo clean -fdq
done < /verif/tools/detection_table.txt
echo "" >> $out.tmp; echo "]" >> $out.tmp; mv $out.tmp $out
