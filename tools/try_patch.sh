#!/bin/sh
# usage: tools/try_patch.sh <patch.diff> <ID> [ID...]   (env TIER=quick|thorough)
# Applies a patch to /repo, runs the given checks without touching the evidence files, and reverts.
set -u
patch="$1"; shift
tier="${TIER:-quick}"
cd /repo || exit 2
if [ -n "$(git status --porcelain)" ]; then echo "repo dirty, refusing"; exit 2; fi
git apply "$patch" || { echo "patch does not apply"; exit 2; }
trap 'git -C /repo checkout -- . ; git -C /repo clean -fdq' EXIT
cd /verif
for id in "$@"; do
  out=$(VERIF_NO_EVIDENCE=1 bin/vcheck "$id" --tier "$tier" ${JOBS:+--jobs "$JOBS"} 2>/dev/null)
  code=$?
  echo "== $id exit=$code"
  echo "$out" | grep -E "^(VIOLATION|KNOWN-FINDING|ERROR|C[0-9]+ tier)" | head -8
  echo "$out" | grep -A1 "^  violation:" | head -6 | cut -c1-400
done
