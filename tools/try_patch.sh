#!/bin/sh
# usage: tools/try_patch.sh <patch.diff> <ID> [ID...]   (env TIER=quick|thorough, JOBS=<regexp>, VERIF_BUDGET_S)
# Applies a change to a scratch worktree of /repo's HEAD (never to /repo itself), runs the given checks
# against that worktree without touching the evidence files, and removes the worktree.
set -u
patch="$1"; shift
tier="${TIER:-quick}"
wt=$(mktemp -d /tmp/trypatch-XXXXXX)
git -C /repo worktree add -q --detach "$wt" HEAD || exit 2
trap 'git -C /repo worktree remove --force "$wt" 2>/dev/null; rm -rf "$wt"; git -C /repo worktree prune' EXIT
git -C "$wt" apply "$patch" || { echo "patch does not apply"; exit 2; }
cd /verif
for id in "$@"; do
  out=$(VERIF_REPO="$wt" VERIF_NO_EVIDENCE=1 bin/vcheck "$id" --tier "$tier" ${JOBS:+--jobs "$JOBS"} 2>/dev/null)
  code=$?
  echo "== $id exit=$code"
  echo "$out" | grep -E "^(VIOLATION|KNOWN-FINDING|ERROR|C[0-9]+ tier)" | head -8
  echo "$out" | grep -A1 "^  violation:" | head -6 | cut -c1-400
done
