package main

// C13: the lock-free skiplist used directly is a linearizable ordered set.
// C14: structure and statistics are consistent at quiescence (same executions, walker oracle).

import (
	"fmt"
	"sort"
	"strings"
	"unsafe"

	"github.com/couchbase/nitro/skiplist"
	"github.com/couchbase/nitro/zzverif/vrt"
)

type slOp struct {
	kind  byte // I insert, D delete by key, N delete by node handle (initial node of key), L lookup
	key   int
	level int
}

func (o slOp) String() string {
	if o.kind == 'I' {
		return fmt.Sprintf("I%d.%d", o.key, o.level)
	}
	return fmt.Sprintf("%c%d", o.kind, o.key)
}

type slInit struct {
	key, level int
}

type slDriver struct {
	init    []slInit
	threads [][]slOp
	mm      bool
	fine    bool // plain stores to shared memory are scheduling points too
	bound   int  // preemption bound override (0 = tier default)
}

func (d slDriver) name() string {
	var in []string
	for _, i := range d.init {
		in = append(in, fmt.Sprintf("%d.%d", i.key, i.level))
	}
	var ts []string
	for _, t := range d.threads {
		var os []string
		for _, o := range t {
			os = append(os, o.String())
		}
		ts = append(ts, strings.Join(os, ","))
	}
	mode := "go"
	if d.mm {
		mode = "mm"
	}
	if d.fine {
		mode += "+fine"
	}
	return fmt.Sprintf("%s/init=%s/%s", mode, strings.Join(in, ","), strings.Join(ts, "|"))
}

var slInits = [][]slInit{
	{},
	{{2, 0}},
	{{2, 1}},
	{{1, 0}, {3, 1}},
	{{1, 1}, {2, 2}, {3, 0}},
}

func slAlphabet(init []slInit, maxLevel int) []slOp {
	var a []slOp
	for k := 1; k <= 3; k++ {
		for l := 0; l <= maxLevel; l++ {
			a = append(a, slOp{'I', k, l})
		}
	}
	for k := 1; k <= 3; k++ {
		a = append(a, slOp{'D', k, 0})
	}
	for _, i := range init {
		a = append(a, slOp{'N', i.key, 0})
	}
	for k := 1; k <= 3; k++ {
		a = append(a, slOp{'L', k, 0})
	}
	return a
}

// interesting: the two ops touch the same key or neighbouring keys, and at least one of them mutates.
func slInteresting(a, b slOp) bool {
	if a.kind == 'L' && b.kind == 'L' {
		return false
	}
	d := a.key - b.key
	return d >= -1 && d <= 1
}

func slDrivers(tier string) []slDriver {
	var out []slDriver
	maxLevel := 1
	if tier == "thorough" {
		maxLevel = 2
	}
	for ii, init := range slInits {
		al := slAlphabet(init, maxLevel)
		for i := 0; i < len(al); i++ {
			for j := i; j < len(al); j++ {
				if !slInteresting(al[i], al[j]) {
					continue
				}
				out = append(out, slDriver{init: init, threads: [][]slOp{{al[i]}, {al[j]}}})
				// user-managed memory: a subset in quick, everything in thorough
				if tier == "thorough" || ii == 2 || ii == 3 {
					out = append(out, slDriver{init: init, threads: [][]slOp{{al[i]}, {al[j]}}, mm: true})
				}
			}
		}
	}
	// two-operation lists and three threads: curated in quick, systematic in thorough
	k2 := slInits[2]
	k13 := slInits[3]
	k123 := slInits[4]
	cur := []slDriver{
		{init: k2, threads: [][]slOp{{{'D', 2, 0}, {'I', 2, 1}}, {{'L', 2, 0}, {'L', 2, 0}}}},
		{init: k2, threads: [][]slOp{{{'D', 2, 0}, {'I', 2, 1}}, {{'D', 2, 0}}}},
		{init: k2, threads: [][]slOp{{{'D', 2, 0}, {'I', 2, 0}}, {{'N', 2, 0}}}},
		{init: k2, threads: [][]slOp{{{'D', 2, 0}, {'I', 2, 1}}, {{'I', 2, 1}, {'D', 2, 0}}}},
		{init: k2, threads: [][]slOp{{{'I', 1, 1}, {'D', 2, 0}}, {{'I', 3, 1}, {'D', 2, 0}}}},
		{init: nil, threads: [][]slOp{{{'I', 2, 1}, {'D', 2, 0}}, {{'I', 2, 1}, {'D', 2, 0}}}},
		{init: nil, threads: [][]slOp{{{'I', 1, 1}, {'I', 2, 1}}, {{'I', 3, 1}, {'I', 2, 1}}}},
		{init: k13, threads: [][]slOp{{{'I', 2, 1}, {'D', 2, 0}}, {{'D', 1, 0}, {'D', 3, 0}}}},
		{init: k123, threads: [][]slOp{{{'D', 2, 0}, {'D', 3, 0}}, {{'D', 1, 0}, {'L', 3, 0}}}},
		{init: k123, threads: [][]slOp{{{'N', 2, 0}, {'I', 2, 1}}, {{'N', 2, 0}, {'L', 2, 0}}}},
		{init: k2, threads: [][]slOp{{{'D', 2, 0}}, {{'I', 2, 1}}, {{'L', 2, 0}}}},
		{init: k2, threads: [][]slOp{{{'D', 2, 0}}, {{'D', 2, 0}}, {{'I', 2, 1}}}},
		{init: k2, threads: [][]slOp{{{'N', 2, 0}}, {{'N', 2, 0}}, {{'D', 2, 0}}}},
		{init: nil, threads: [][]slOp{{{'I', 2, 1}}, {{'I', 2, 1}}, {{'D', 2, 0}}}},
		{init: k13, threads: [][]slOp{{{'I', 2, 1}}, {{'D', 1, 0}}, {{'D', 3, 0}}}},
		{init: k123, threads: [][]slOp{{{'D', 1, 0}}, {{'D', 2, 0}}, {{'D', 3, 0}}}},
		// adjacent nodes marked by two deleters before either unlinks, then a search for the second one
		{init: k123, threads: [][]slOp{{{'D', 2, 0}}, {{'D', 3, 0}, {'L', 3, 0}}}},
		{init: k123, threads: [][]slOp{{{'D', 2, 0}}, {{'D', 3, 0}, {'I', 3, 0}}}},
		{init: k123, threads: [][]slOp{{{'D', 1, 0}, {'L', 1, 0}}, {{'D', 2, 0}, {'L', 2, 0}}}},
		{init: k123, threads: [][]slOp{{{'N', 2, 0}}, {{'N', 3, 0}}, {{'L', 3, 0}}}},
		// three level draws racing for the list level (a delayed writer must not lower it)
		{init: nil, threads: [][]slOp{{{'I', 1, 1}}, {{'I', 2, 1}, {'I', 3, 2}}}},
		{init: nil, threads: [][]slOp{{{'I', 1, 1}}, {{'I', 2, 1}}, {{'I', 3, 2}}}},
		// an insert whose upper-level link has to be redone (a tower lands in front and one behind) while it is deleted
		{init: nil, threads: [][]slOp{{{'I', 2, 1}}, {{'I', 1, 1}, {'I', 3, 1}}, {{'D', 2, 0}}}},
		{init: k13, threads: [][]slOp{{{'I', 2, 1}}, {{'D', 2, 0}}, {{'D', 3, 0}, {'I', 3, 1}}}},
	}
	for _, d := range cur {
		out = append(out, d)
		d.mm = true
		out = append(out, d)
		d.mm = false
		d.fine = true
		out = append(out, d)
	}
	// three deleters of adjacent level-0 nodes suspended between mark and unlink, then a search: needs
	// four preemptions; the driver is small enough (level-0 nodes only) to afford that bound
	if tier == "thorough" {
		flat := []slInit{{1, 0}, {2, 0}, {3, 0}}
		out = append(out, slDriver{init: flat, threads: [][]slOp{{{'D', 3, 0}, {'L', 3, 0}}, {{'D', 2, 0}}, {{'D', 1, 0}}}, bound: 4})
	}
	// fine mode on the single-op pairs that race an insert with a delete or another insert of the same key
	for _, init := range [][]slInit{nil, k2, k13} {
		for _, l := range []int{1, 2} {
			out = append(out, slDriver{init: init, threads: [][]slOp{{{'I', 2, l}}, {{'D', 2, 0}}}, fine: true})
			out = append(out, slDriver{init: init, threads: [][]slOp{{{'I', 2, l}}, {{'I', 2, 1}}}, fine: true})
			out = append(out, slDriver{init: init, threads: [][]slOp{{{'I', 2, l}}, {{'I', 1, 1}}}, fine: true})
		}
	}
	if tier == "thorough" {
		// all pairs (one op | two ops) on the two smallest non-empty inits, levels {0,1}
		for _, init := range [][]slInit{k2, k13} {
			al := slAlphabet(init, 1)
			for _, a := range al {
				for _, b := range al {
					for _, c := range al {
						if a.kind == 'L' && b.kind == 'L' && c.kind == 'L' {
							continue
						}
						if !slInteresting(a, b) && !slInteresting(a, c) {
							continue
						}
						if b.kind == 'L' && c.kind == 'L' {
							continue
						}
						out = append(out, slDriver{init: init, threads: [][]slOp{{a}, {b, c}}})
					}
				}
			}
		}
	}
	return out
}

func slJobs(prop string) func(tier string) []Job {
	return func(tier string) []Job {
		var jobs []Job
		for _, d := range slDrivers(tier) {
			d := d
			bound := 2
			nops := 0
			for _, t := range d.threads {
				nops += len(t)
			}
			if tier == "thorough" && len(d.threads) == 2 && nops == 2 {
				bound = 3
			}
			if d.bound > 0 {
				bound = d.bound
			}
			j := Job{Name: fmt.Sprintf("%s/%s/c%d", prop, d.name(), bound)}
			if d.bound > 0 {
				j.Shards = 16
			}
			j.Run = func(jc *JobCtx) { runSlDriver(jc, prop, d, bound) }
			jobs = append(jobs, j)
		}
		return jobs
	}
}

// model state: node id per key (0 = absent), keys 1..3
type slState [4]int

func (s slState) String() string { return fmt.Sprintf("%d,%d,%d", s[1], s[2], s[3]) }

func parseSlState(st string) (s slState) {
	fmt.Sscanf(st, "%d,%d,%d", &s[1], &s[2], &s[3])
	return
}

func runSlDriver(jc *JobCtx, prop string, d slDriver, bound int) {
	var outcome string
	body := func() {
		outcome = ""
		e := newSlEnv(d.mm, nil)
		s := e.s
		vrt.NoBranch(true)
		var initState slState
		handles := map[int]*skiplist.Node{}
		buf0 := s.MakeBuf()
		for _, in := range d.init {
			n, ok := e.insert(in.key, in.level, buf0)
			if !ok {
				panic("setup insert failed")
			}
			handles[in.key] = n
			initState[in.key] = in.key
		}
		var hist []linOp
		results := make([][]string, len(d.threads))
		inserts := 0
		var ths []*vrt.Thread
		nextID := 10
		for ti, prog := range d.threads {
			ti, prog := ti, prog
			ths = append(ths, vrt.GoNamed(fmt.Sprintf("T%d", ti+1), func() {
				buf := s.MakeBuf()
				for _, op := range prog {
					op := op
					call := vrt.Fence()
					var ok bool
					id := 0
					switch op.kind {
					case 'I':
						nextID++
						id = nextID
						_, ok = e.insert(op.key, op.level, buf)
						if ok {
							inserts++
						}
					case 'D':
						ok = s.Delete(e.item(op.key), skiplist.CompareInt, buf, &s.Stats)
					case 'N':
						ok = s.DeleteNode(handles[op.key], skiplist.CompareInt, buf, &s.Stats)
					case 'L':
						var tok *skiplist.BarrierSession
						if d.mm {
							tok = s.GetAccesBarrier().Acquire()
						}
						_, _, ok = s.Lookup(e.item(op.key), skiplist.CompareInt, buf, &s.Stats)
						if d.mm {
							s.GetAccesBarrier().Release(tok)
						}
					}
					ret := vrt.Fence()
					res := ok
					results[ti] = append(results[ti], fmt.Sprintf("%s=%v", op, res))
					hist = append(hist, linOp{Call: call, Ret: ret, Thread: ti, Desc: fmt.Sprintf("T%d:%s=%v@[%d,%d]", ti+1, op, res, call, ret),
						Apply: func(st string) (string, bool) {
							m := parseSlState(st)
							switch op.kind {
							case 'I':
								if m[op.key] == 0 {
									m[op.key] = id
									return m.String(), res
								}
								return st, !res
							case 'D':
								if m[op.key] != 0 {
									m[op.key] = 0
									return m.String(), res
								}
								return st, !res
							case 'N':
								// the handle is the initial node of the key, whose id is the key itself
								if m[op.key] == op.key {
									m[op.key] = 0
									return m.String(), res
								}
								return st, !res
							default:
								return st, res == (m[op.key] != 0)
							}
						}})
				}
			}))
		}
		vrt.FineMode = d.fine
		vrt.NoBranch(false)
		vrt.Join(ths...)
		vrt.NoBranch(true)
		vrt.FineMode = false
		// quiescent scan as one more operation
		call := vrt.Fence()
		var scan []int
		it := s.NewIterator(skiplist.CompareInt, buf0)
		for it.SeekFirst(); it.Valid(); it.Next() {
			scan = append(scan, skiplist.IntFromItem(it.Get()))
			if len(scan) > 100 {
				break
			}
		}
		it.Close()
		ret := vrt.Fence()
		hist = append(hist, linOp{Call: call, Ret: ret, Thread: -1, Desc: fmt.Sprintf("scan=%v", scan), Apply: func(st string) (string, bool) {
			m := parseSlState(st)
			var want []int
			for k := 1; k <= 3; k++ {
				if m[k] != 0 {
					want = append(want, k)
				}
			}
			return st, fmt.Sprint(want) == fmt.Sprint(scan)
		}})
		var rs []string
		for _, r := range results {
			rs = append(rs, strings.Join(r, ","))
		}
		outcome = strings.Join(rs, "|") + fmt.Sprintf(" scan=%v", scan)
		if prop == "C13" {
			if ok, _ := linearizable(hist, initState.String()); !ok {
				vrt.Fail("not-linearizable", "history has no linearization w.r.t. the ordered-set model: "+histString(hist))
			}
			if !sort.IntsAreSorted(scan) {
				vrt.Fail("not-linearizable", fmt.Sprintf("quiescent scan out of order: %v", scan))
			}
		}
		if prop == "C14" {
			wi, problem := walkSkiplist(s, skiplist.CompareInt)
			if problem != "" {
				vrt.Fail("structure", problem+" after "+histString(hist))
			}
			if p := reconcileStats(s, &wi); p != "" {
				vrt.Fail("stats", p+" after "+histString(hist))
			}
			st := s.GetStats()
			if st.NodeAllocs != int64(len(d.init)+inserts) || st.NodeFrees != 0 {
				vrt.Fail("stats", fmt.Sprintf("NodeAllocs=%d NodeFrees=%d but %d inserts succeeded and nothing was freed", st.NodeAllocs, st.NodeFrees, len(d.init)+inserts))
			}
			if d.mm {
				// allocator view: head, tail and every node of a successful insert are live; rejected inserts were freed
				live, _ := e.ga.Live()
				if live != 2+len(d.init)+inserts {
					vrt.Fail("stats", fmt.Sprintf("allocator holds %d live blocks, expected %d (sentinels + successful inserts)", live, 2+len(d.init)+inserts))
				}
			}
			jc.Rep.Extra["quiescent_points_checked"]++
		}
		_ = unsafe.Pointer(nil)
	}
	jc.Sched(SchedOpts{Model: vrt.CostPreempt, Bound: bound, Outcome: func(r *vrt.Result) string { return outcome }}, body, nil)
}

func init() {
	register(&propDef{ID: "C13", Jobs: slJobs("C13"),
		Rule:  "all schedules within the preemption bound of closed 2-3 thread drivers over {Insert(k,level), Delete(k), DeleteNode(handle), Lookup(k)} on keys {1,2,3} from 5 initial contents, Go-managed and user-managed nodes; every call/return history plus a final quiescent scan is checked for linearizability against an ordered set with node identity; non-trivial = schedule deviating from the default one with a context switch, distinct by observation hash",
		Notes: []string{"Go atomics are sequentially consistent; plain accesses are atomic with the step containing them", "levels are chosen through Insert2's randFn (capped by list level + 1 by NewLevel)"}})
	register(&propDef{ID: "C14", Jobs: func(tier string) []Job {
		jobs := slJobs("C14")(tier)
		// nitro-level quiescent points: the sequential histories of C02 with the walker + DumpStats reconciliation
		jobs = append(jobs, seqJobs("C14", tier, seqCfgs(tier, []bool{false, true}, []string{"default"}, []string{"drain"}, 5, 6))...)
		// structures produced by the bulk builder, with nodes of every height up to the maximum level
		jobs = append(jobs, Job{Name: "C14/builder/go/tall", Run: func(jc *JobCtx) { runBuilderTall(jc, false) }})
		jobs = append(jobs, Job{Name: "C14/builder/mm/tall", Run: func(jc *JobCtx) { runBuilderTall(jc, true) }})
		return jobs
	},
		Rule:  "same drivers and schedules as C13; at the quiescent end of every execution the structure walker (per-level order, acyclicity, sub-sequence, height completeness) and the statistics reconciliation run; plus every nitro-level sequential history up to the depth (alphabet of C02, workers drained after every call) with the walker and the reconciliation of DumpStats (writer-local statistics merged) and of the allocator live set at every quiescent point; builder outputs are walked by the C18 check, restored instances by C05",
		Notes: []string{"statistics are compared at quiescence only"}})
}
