package main

import (
	"os"
	"testing"
)

// TestReplay re-executes one recorded violation without the explorer:
//
//	VERIF_REPLAY=/verif/replays/C08-1.json go test -overlay <overlay.json> -vet=off -run TestReplay .
//
// (bin/vcheck replay <file> --trace does the same through the driver, which also generates the overlay.)
func TestReplay(t *testing.T) {
	f := os.Getenv("VERIF_REPLAY")
	if f == "" {
		t.Skip("VERIF_REPLAY not set")
	}
	if code := cmdReplay([]string{f, "--trace"}); code != 0 {
		t.Fatalf("replay of %s reproduces the violation (exit %d)", f, code)
	}
}
