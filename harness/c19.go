package main

// C19: item encoding, file framing and checksums round-trip.
// Exhaustive over all sequences of <= 3 items drawn from every byte string of length 1-3 over
// {0x00,0x01,0xFF,'a'} (embedded zeros and length-like prefixes in every position), plus
// boundary lengths, through the real file writer / reader over the in-memory file system;
// version-0 framing produced by the harness; KV helpers over the same byte-string set.

import (
	"bytes"
	"encoding/binary"
	"fmt"

	"github.com/couchbase/nitro"
	vos "github.com/couchbase/nitro/zzverif/os"
)

var c19Alpha = []byte{0x00, 0x01, 0xFF, 'a'}

func c19Strings() [][]byte {
	var out [][]byte
	for l := 1; l <= 3; l++ {
		n := 1
		for i := 0; i < l; i++ {
			n *= len(c19Alpha)
		}
		for x := 0; x < n; x++ {
			b := make([]byte, l)
			y := x
			for i := 0; i < l; i++ {
				b[i] = c19Alpha[y%len(c19Alpha)]
				y /= len(c19Alpha)
			}
			out = append(out, b)
		}
	}
	return out
}

func patterned(n int) []byte {
	b := make([]byte, n)
	for i := range b {
		b[i] = byte(i*7 + i/251)
	}
	// make the head look like a length prefix / terminator
	if n >= 4 {
		copy(b, []byte{0, 0, 0, 0})
	}
	return b
}

// c19RoundTrip writes items through the real writer and reads them back with the real reader.
func c19RoundTrip(db *nitro.Nitro, items [][]byte, blockSize int) (problem string) {
	defer func() {
		if r := recover(); r != nil {
			problem = fmt.Sprintf("panic: %v", r)
		}
	}()
	nitro.DiskBlockSize = blockSize
	fs := vos.NewMemFS()
	vos.FS = fs
	defer func() { vos.FS = nil }()
	w := nitro.VerifNewFileWriter(db)
	if err := w.Open("/f"); err != nil {
		return "writer Open: " + err.Error()
	}
	for _, it := range items {
		if err := w.WriteItem(nitro.VerifNewItem(db, it)); err != nil {
			return "WriteItem: " + err.Error()
		}
	}
	wsum := w.Checksum() // as StoreToDisk does: the writer's checksum is read before Close appends the terminator
	if err := w.Close(); err != nil {
		return "writer Close: " + err.Error()
	}
	r := nitro.VerifNewFileReader(db, 1)
	if err := r.Open("/f"); err != nil {
		return "reader Open: " + err.Error()
	}
	defer r.Close()
	for i, want := range items {
		itm, err := r.ReadItem()
		if err != nil {
			return fmt.Sprintf("ReadItem #%d: %v", i, err)
		}
		if itm == nil {
			return fmt.Sprintf("ReadItem #%d: premature end of stream (wrote %d items)", i, len(items))
		}
		if !bytes.Equal(itm.Bytes(), want) {
			return fmt.Sprintf("ReadItem #%d returned %x, wrote %x", i, clip(itm.Bytes()), clip(want))
		}
	}
	itm, err := r.ReadItem()
	if err != nil || itm != nil {
		return fmt.Sprintf("after the last item ReadItem returned (%v,%v) instead of end-of-stream", itm != nil, err)
	}
	if r.Checksum() != wsum {
		return fmt.Sprintf("reader checksum %08x != writer checksum %08x", r.Checksum(), wsum)
	}
	return ""
}

func clip(b []byte) []byte {
	if len(b) > 16 {
		return b[:16]
	}
	return b
}

// c19V0 frames items in the version-0 format and reads them with a version-0 reader.
func c19V0(db *nitro.Nitro, items [][]byte, blockSize int) (problem string) {
	defer func() {
		if r := recover(); r != nil {
			problem = fmt.Sprintf("panic: %v", r)
		}
	}()
	nitro.DiskBlockSize = blockSize
	fs := vos.NewMemFS()
	vos.FS = fs
	defer func() { vos.FS = nil }()
	var buf bytes.Buffer
	for _, it := range items {
		var l [2]byte
		binary.BigEndian.PutUint16(l[:], uint16(len(it)))
		buf.Write(l[:])
		buf.Write(it)
	}
	buf.Write([]byte{0, 0})
	fs.Put("/v0", buf.Bytes())
	r := nitro.VerifNewFileReader(db, 0)
	if err := r.Open("/v0"); err != nil {
		return "reader Open: " + err.Error()
	}
	defer r.Close()
	for i, want := range items {
		itm, err := r.ReadItem()
		if err != nil || itm == nil {
			return fmt.Sprintf("v0 ReadItem #%d: (%v,%v)", i, itm != nil, err)
		}
		if !bytes.Equal(itm.Bytes(), want) {
			return fmt.Sprintf("v0 ReadItem #%d returned %x, framed %x", i, clip(itm.Bytes()), clip(want))
		}
	}
	if itm, err := r.ReadItem(); err != nil || itm != nil {
		return fmt.Sprintf("v0: after the last item ReadItem returned (%v,%v)", itm != nil, err)
	}
	return ""
}

func itemsDesc(items [][]byte) string {
	s := ""
	for _, it := range items {
		if len(it) > 8 {
			s += fmt.Sprintf("[%d bytes] ", len(it))
		} else {
			s += fmt.Sprintf("%x ", it)
		}
	}
	return s
}

// choices encode an item sequence: indexes into strs (+ len(strs)+j for boundary item j)
func c19Decode(strs [][]byte, bnd []int, ch []int) [][]byte {
	var items [][]byte
	for _, c := range ch {
		if c < len(strs) {
			items = append(items, strs[c])
		} else {
			items = append(items, patterned(bnd[c-len(strs)]))
		}
	}
	return items
}

var c19Boundary = []int{255, 256, 65535, 65536, 65537}

func runC19Seq(jc *JobCtx, first int, maxLen int, v0 bool) {
	rep := jc.Rep
	strs := c19Strings()
	db := nitro.New()
	fn := c19RoundTrip
	kind := "framing"
	if v0 {
		fn = c19V0
		kind = "framing-v0"
	}
	run := func(ch []int, bs int) {
		items := c19Decode(strs, c19Boundary, ch)
		rep.Executions++
		rep.Transitions += int64(len(items) + 1)
		if p := fn(db, items, bs); p != "" {
			rep.violate(Viol{Kind: kind, Msg: p + " for items " + itemsDesc(items) + fmt.Sprintf("(block size %d)", bs), Site: "file.go/item.go", Job: jc.Job.Name, Choices: append(append([]int{}, ch...), bs)})
		}
	}
	if jc.Replay {
		ch := jc.ReplayChois
		run(ch[:len(ch)-1], ch[len(ch)-1])
		return
	}
	// every sequence of 1..maxLen items starting with strs[first]; tiny block size so frames straddle flushes
	seq := []int{first}
	var rec func()
	rec = func() {
		run(seq, 16)
		rep.Nontrivial++
		if len(seq) < maxLen {
			for i := range strs {
				seq = append(seq, i)
				rec()
				seq = seq[:len(seq)-1]
			}
		}
	}
	rec()
	rep.Nodes = rep.Executions
	rep.Bound = fmt.Sprintf("len<=%d", maxLen)
	rep.sample(fmt.Sprintf("items %s... (all sequences of <=%d items starting with %x)", itemsDesc([][]byte{strs[first]}), maxLen, strs[first]))
	rep.outcome("roundtrip-ok")
}

func runC19Boundary(jc *JobCtx, v0 bool) {
	rep := jc.Rep
	strs := c19Strings()
	db := nitro.New()
	n := len(strs)
	if jc.Replay {
		ch := jc.ReplayChois
		items := c19Decode(strs, c19Boundary, ch[:len(ch)-1])
		fn := c19RoundTrip
		if v0 {
			fn = c19V0
		}
		if p := fn(db, items, ch[len(ch)-1]); p != "" {
			rep.violate(Viol{Kind: "framing", Msg: p + " for items " + itemsDesc(items), Site: "file.go/item.go", Job: jc.Job.Name, Choices: ch})
		}
		rep.Executions++
		return
	}
	// boundary-length items alone, in pairs, and surrounded by short ones, with several block sizes
	small := []int{0, 2, 5, 20} // 00, ff, 0000..., etc.
	for _, bs := range []int{8, 4096, 512 * 1024} {
		for bi := range c19Boundary {
			if v0 && c19Boundary[bi] > 65535 {
				continue
			}
			cands := [][]int{{n + bi}}
			for bj := range c19Boundary {
				if v0 && c19Boundary[bj] > 65535 {
					continue
				}
				cands = append(cands, []int{n + bi, n + bj})
			}
			for _, s := range small {
				cands = append(cands, []int{s, n + bi}, []int{n + bi, s}, []int{s, n + bi, s})
			}
			for _, ch := range cands {
				items := c19Decode(strs, c19Boundary, ch)
				fn := c19RoundTrip
				if v0 {
					fn = c19V0
				}
				rep.Executions++
				rep.Nontrivial++
				rep.Transitions += int64(len(items) + 1)
				if p := fn(db, items, bs); p != "" {
					rep.violate(Viol{Kind: "framing", Msg: p + " for items " + itemsDesc(items) + fmt.Sprintf("(block size %d)", bs), Site: "file.go/item.go", Job: jc.Job.Name, Choices: append(append([]int{}, ch...), bs)})
				}
			}
		}
	}
	rep.Nodes = rep.Executions
	rep.Bound = "boundary lengths 255,256,65535,65536,65537"
	rep.sample("boundary-length items alone, in pairs and between short items; block sizes 8, 4096, 524288")
	rep.outcome("roundtrip-ok")
}

func sign(x int) int {
	if x < 0 {
		return -1
	}
	if x > 0 {
		return 1
	}
	return 0
}

func runC19KV(jc *JobCtx) {
	rep := jc.Rep
	strs := append([][]byte{{}}, c19Strings()...)
	for _, l := range []int{255, 256, 65535} {
		strs = append(strs, patterned(l))
		alt := patterned(l)
		alt[l-1] ^= 0xFF
		strs = append(strs, alt)
	}
	vals := [][]byte{{}, {0}, {0xFF, 0x00}, []byte("value")}
	check := func(ki, vi, kj, vj int) {
		k1, v1, k2, v2 := strs[ki], vals[vi], strs[kj], vals[vj]
		rep.Executions++
		defer func() {
			if r := recover(); r != nil {
				rep.violate(Viol{Kind: "kv-panic", Msg: fmt.Sprintf("panic: %v for keys %x / %x", r, clip(k1), clip(k2)), Site: "item.go", Job: jc.Job.Name, Choices: []int{ki, vi, kj, vj}})
			}
		}()
		a := nitro.KVToBytes(k1, v1)
		b := nitro.KVToBytes(k2, v2)
		gk, gv := nitro.KVFromBytes(a)
		if !bytes.Equal(gk, k1) || !bytes.Equal(gv, v1) {
			rep.violate(Viol{Kind: "kv-roundtrip", Msg: fmt.Sprintf("KVFromBytes(KVToBytes(%x,%x)) = (%x,%x)", clip(k1), v1, clip(gk), gv), Site: "item.go", Job: jc.Job.Name, Choices: []int{ki, vi, kj, vj}})
		}
		if sign(nitro.CompareKV(a, b)) != sign(bytes.Compare(k1, k2)) {
			rep.violate(Viol{Kind: "kv-compare", Msg: fmt.Sprintf("CompareKV orders keys %x / %x as %d, bytes.Compare as %d", clip(k1), clip(k2), nitro.CompareKV(a, b), bytes.Compare(k1, k2)), Site: "item.go", Job: jc.Job.Name, Choices: []int{ki, vi, kj, vj}})
		}
	}
	if jc.Replay {
		c := jc.ReplayChois
		check(c[0], c[1], c[2], c[3])
		return
	}
	for ki := range strs {
		for kj := range strs {
			for vi := range vals {
				vj := (vi + 1) % len(vals)
				check(ki, vi, kj, vj)
				rep.Nontrivial++
			}
		}
	}
	rep.Nodes = rep.Executions
	rep.Transitions = rep.Executions
	rep.Bound = "all key pairs"
	rep.sample(fmt.Sprintf("%d keys (all byte strings of length 0-3 over {00,01,ff,'a'} + lengths 255,256,65535) x 4 values, all ordered pairs", len(strs)))
	rep.outcome("kv-ok")
}

// c19Rewrite writes sequence a to a path, then sequence b to the SAME path (a backup directory that is
// reused), and reads the file back: it must hold exactly b.
func c19Rewrite(db *nitro.Nitro, a, b [][]byte, blockSize int) (problem string) {
	defer func() {
		if r := recover(); r != nil {
			problem = fmt.Sprintf("panic: %v", r)
		}
	}()
	nitro.DiskBlockSize = blockSize
	fs := vos.NewMemFS()
	vos.FS = fs
	defer func() { vos.FS = nil }()
	var wsum uint32
	for _, items := range [][][]byte{a, b} {
		w := nitro.VerifNewFileWriter(db)
		if err := w.Open("/f"); err != nil {
			return "writer Open: " + err.Error()
		}
		for _, it := range items {
			if err := w.WriteItem(nitro.VerifNewItem(db, it)); err != nil {
				return "WriteItem: " + err.Error()
			}
		}
		wsum = w.Checksum()
		if err := w.Close(); err != nil {
			return "writer Close: " + err.Error()
		}
	}
	r := nitro.VerifNewFileReader(db, 1)
	if err := r.Open("/f"); err != nil {
		return "reader Open: " + err.Error()
	}
	defer r.Close()
	for i, want := range b {
		itm, err := r.ReadItem()
		if err != nil || itm == nil {
			return fmt.Sprintf("after rewriting the file ReadItem #%d returned (%v,%v)", i, itm != nil, err)
		}
		if !bytes.Equal(itm.Bytes(), want) {
			return fmt.Sprintf("after rewriting the file ReadItem #%d returned %x, the second writer wrote %x", i, clip(itm.Bytes()), clip(want))
		}
	}
	if itm, err := r.ReadItem(); err != nil || itm != nil {
		return fmt.Sprintf("after rewriting the file and reading the second writer's %d items ReadItem returned (%v,%v) instead of end-of-stream", len(b), itm != nil, err)
	}
	if r.Checksum() != wsum {
		return fmt.Sprintf("after rewriting the file the reader checksum %08x != the second writer's checksum %08x", r.Checksum(), wsum)
	}
	return ""
}

func runC19Rewrite(jc *JobCtx) {
	rep := jc.Rep
	strs := c19Strings()
	db := nitro.New()
	// sequences of 0-2 items over a few representative strings: every ordered pair (first content, second content)
	pick := []int{0, 2, 5, 20, 83}
	var seqs [][]int
	seqs = append(seqs, []int{})
	for _, x := range pick {
		seqs = append(seqs, []int{x})
		for _, y := range pick {
			seqs = append(seqs, []int{x, y})
		}
	}
	one := func(ai, bi, bs int) {
		a := c19Decode(strs, c19Boundary, seqs[ai])
		b := c19Decode(strs, c19Boundary, seqs[bi])
		rep.Executions++
		rep.Nontrivial++
		rep.Transitions += int64(len(a) + len(b) + 2)
		if p := c19Rewrite(db, a, b, bs); p != "" {
			rep.violate(Viol{Kind: "framing-rewrite", Msg: fmt.Sprintf("%s (first content %s, second content %s, block size %d)", p, itemsDesc(a), itemsDesc(b), bs), Site: "file.go", Job: jc.Job.Name, Choices: []int{ai, bi, bs}})
		}
	}
	if jc.Replay {
		c := jc.ReplayChois
		one(c[0], c[1], c[2])
		return
	}
	for ai := range seqs {
		for bi := range seqs {
			for _, bs := range []int{8, 512 * 1024} {
				one(ai, bi, bs)
			}
		}
	}
	rep.Nodes = rep.Executions
	rep.Bound = "all ordered pairs of 31 short sequences"
	rep.sample("a file written twice through the real writer (a reused backup path): the second content must be what the reader returns")
	rep.outcome("rewrite-ok")
}

func c19Jobs(tier string) []Job {
	var jobs []Job
	jobs = append(jobs, Job{Name: "C19/v1/rewrite-same-path", Run: runC19Rewrite})
	n := len(c19Strings())
	maxLen := 3
	for f := 0; f < n; f++ {
		f := f
		jobs = append(jobs, Job{Name: fmt.Sprintf("C19/v1/first=%d", f), Run: func(jc *JobCtx) { runC19Seq(jc, f, maxLen, false) }})
	}
	v0Len := 2
	if tier == "thorough" {
		v0Len = 3
	}
	for f := 0; f < n; f++ {
		f := f
		jobs = append(jobs, Job{Name: fmt.Sprintf("C19/v0/len%d/first=%d", v0Len, f), Run: func(jc *JobCtx) { runC19Seq(jc, f, v0Len, true) }})
	}
	jobs = append(jobs, Job{Name: "C19/v1/boundary", Run: func(jc *JobCtx) { runC19Boundary(jc, false) }})
	jobs = append(jobs, Job{Name: "C19/v0/boundary", Run: func(jc *JobCtx) { runC19Boundary(jc, true) }})
	jobs = append(jobs, Job{Name: "C19/kv", Run: runC19KV})
	return jobs
}

func init() {
	register(&propDef{ID: "C19", Jobs: c19Jobs,
		Rule:  "every sequence of 1-3 items over all 84 byte strings of length 1-3 over {00,01,ff,'a'} written through the real rawFileWriter and read back through the real rawFileReader over the in-memory file system with a 16-byte block size (frames straddle flushes), boundary lengths 255/256/65535/65536/65537 alone, in pairs and between short items with three block sizes, version-0 framing produced by the harness and read with a version-0 reader, KV helpers over all ordered key pairs; non-trivial = each distinct item sequence / key pair",
		Notes: []string{"items are non-empty (the format reserves length 0 as terminator)", "lengths between 4 and 254 and above 65537 are represented by the boundary lengths only"}})
}
