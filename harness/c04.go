package main

// C04: safe memory reclamation — no use-after-free, no double free, no node released while
// linked. User-managed memory on the guard allocator (strict mode: freed pages are
// inaccessible, every hooked atomic access is checked first, every free walks the structure).
// C07 (conc part) and C17 (nitro level) reuse the same drivers with their own end-of-run oracle.

import (
	"fmt"
	"strings"
	"unsafe"

	"github.com/couchbase/nitro"
	"github.com/couchbase/nitro/skiplist"
	vos "github.com/couchbase/nitro/zzverif/os"
	vruntime "github.com/couchbase/nitro/zzverif/runtime"
	"github.com/couchbase/nitro/zzverif/vrt"
)

type smrDriver struct {
	name    string
	delta   bool // delta interleaving + in-memory file system
	writers int
	// setup runs under the default schedule; threads run under exploration; finish under the default schedule
	setup   func(e *nEnv, x *smrCtx)
	threads []func(e *nEnv, x *smrCtx)
	finish  func(e *nEnv, x *smrCtx)
}

type smrCtx struct {
	snaps []*nitro.Snapshot
	res   []string
	store *nitro.Snapshot // the snapshot handed to StoreToDisk (its own reference)
}

func (e *nEnv) putL(w int, bs string, level int) bool {
	e.levels[w] = level
	return e.ws[w].Put2([]byte(bs)) != nil
}

// touch dereferences item bytes obtained from an open iterator, checking the block first.
func (e *nEnv) touch(bs []byte, what string) {
	if len(bs) == 0 {
		return
	}
	e.ga.CheckLive(unsafe.Pointer(&bs[0]), what)
	_ = bs[0] + bs[len(bs)-1]
}

// scanHold iterates a snapshot; every item obtained is dereferenced again after a harness
// scheduling point (it must stay valid until the iterator moves).
func (e *nEnv) scanHold(s *nitro.Snapshot, rate int) []string {
	it := s.NewIterator()
	if it == nil {
		return nil
	}
	it.SetRefreshRate(rate)
	var out []string
	for it.SeekFirst(); it.Valid(); it.Next() {
		bs := it.Get()
		e.touch(bs, "item returned by an open iterator")
		out = append(out, string(bs))
		vrt.Fence()
		e.touch(bs, "item held from an open iterator that has not moved")
		if len(out) > 50 {
			break
		}
	}
	it.Close()
	return out
}

func smrDrivers(tier string) []smrDriver {
	var ds []smrDriver
	snap := func(e *nEnv, x *smrCtx) *nitro.Snapshot {
		s, err := e.db.NewSnapshot()
		if err != nil {
			vrt.Fail("set-semantics", err.Error())
		}
		x.snaps = append(x.snaps, s)
		return s
	}
	// S3: insert overtaken by a delete of the same node, node height 1 / 2
	for _, lvl := range []int{1, 2} {
		lvl := lvl
		ds = append(ds, smrDriver{name: fmt.Sprintf("S3-put-del/level%d", lvl), writers: 2,
			setup: func(e *nEnv, x *smrCtx) {
				e.putL(0, "a", 2) // gives the list some height
				e.putL(0, "z", 1)
			},
			threads: []func(e *nEnv, x *smrCtx){
				func(e *nEnv, x *smrCtx) { x.res[0] = fmt.Sprint(e.putL(0, "k", lvl)) },
				func(e *nEnv, x *smrCtx) { x.res[1] = fmt.Sprint(e.ws[1].Delete([]byte("k"))) },
			},
			finish: func(e *nEnv, x *smrCtx) {
				// traverse the upper levels past k
				e.putL(0, "m", 2)
				e.ws[0].GetNode([]byte("y"))
			}})
	}
	// S4: two writers delete the same key — same epoch and cross epoch
	ds = append(ds, smrDriver{name: "S4-del-del/same-epoch", writers: 2,
		setup: func(e *nEnv, x *smrCtx) { e.putL(0, "a", 1); e.putL(0, "k", 1) },
		threads: []func(e *nEnv, x *smrCtx){
			func(e *nEnv, x *smrCtx) { x.res[0] = fmt.Sprint(e.ws[0].Delete([]byte("k"))) },
			func(e *nEnv, x *smrCtx) { x.res[1] = fmt.Sprint(e.ws[1].Delete([]byte("k"))) },
		}})
	ds = append(ds, smrDriver{name: "S4-del-del/cross-epoch", writers: 2,
		setup: func(e *nEnv, x *smrCtx) { e.putL(0, "a", 1); e.putL(0, "k", 1); snap(e, x) },
		threads: []func(e *nEnv, x *smrCtx){
			func(e *nEnv, x *smrCtx) { x.res[0] = fmt.Sprint(e.ws[0].Delete([]byte("k"))) },
			func(e *nEnv, x *smrCtx) { x.res[1] = fmt.Sprint(e.ws[1].Delete([]byte("k"))) },
		}})
	ds = append(ds, smrDriver{name: "S4-del-del/same-epoch-3", writers: 3,
		setup: func(e *nEnv, x *smrCtx) { e.putL(0, "k", 1) },
		threads: []func(e *nEnv, x *smrCtx){
			func(e *nEnv, x *smrCtx) { x.res[0] = fmt.Sprint(e.ws[0].Delete([]byte("k"))) },
			func(e *nEnv, x *smrCtx) { x.res[1] = fmt.Sprint(e.ws[1].Delete([]byte("k"))) },
			func(e *nEnv, x *smrCtx) { x.res[2] = fmt.Sprint(e.ws[2].GetNode([]byte("k")) != nil) },
		}})
	// S1: same-epoch delete (flush + free) against readers
	ds = append(ds, smrDriver{name: "S1-del-vs-lookup", writers: 2,
		setup: func(e *nEnv, x *smrCtx) { e.putL(0, "a", 1); e.putL(0, "b", 1); e.putL(0, "c", 0) },
		threads: []func(e *nEnv, x *smrCtx){
			func(e *nEnv, x *smrCtx) { x.res[0] = fmt.Sprint(e.ws[0].Delete([]byte("b"))) },
			func(e *nEnv, x *smrCtx) { x.res[1] = fmt.Sprint(e.ws[1].GetNode([]byte("c")) != nil) },
		}})
	for _, rate := range []int{0, 1} {
		rate := rate
		ds = append(ds, smrDriver{name: fmt.Sprintf("S1-churn-vs-iterator/refresh%d", rate), writers: 1,
			setup: func(e *nEnv, x *smrCtx) { e.putL(0, "a", 1); e.putL(0, "c", 0); snap(e, x) },
			threads: []func(e *nEnv, x *smrCtx){
				func(e *nEnv, x *smrCtx) {
					e.putL(0, "b", 1)
					x.res[0] = fmt.Sprint(e.ws[0].Delete([]byte("b")))
				},
				func(e *nEnv, x *smrCtx) { x.res[1] = showAll(e.scanHold(x.snaps[0], rate)) },
			}})
	}
	// S2: closing snapshots (GC worker unlinks, flushes; free worker frees) against an iterator on a newer snapshot
	for _, rate := range []int{0, 1} {
		rate := rate
		ds = append(ds, smrDriver{name: fmt.Sprintf("S2-close-vs-iterator/refresh%d", rate), writers: 1,
			setup: func(e *nEnv, x *smrCtx) {
				e.putL(0, "a", 1)
				e.putL(0, "b", 1)
				e.putL(0, "c", 0)
				snap(e, x)
				e.ws[0].Delete([]byte("b"))
				snap(e, x)
				snap(e, x)
			},
			threads: []func(e *nEnv, x *smrCtx){
				func(e *nEnv, x *smrCtx) { x.snaps[0].Close(); x.snaps[1].Close(); x.snaps[0], x.snaps[1] = nil, nil },
				func(e *nEnv, x *smrCtx) { x.res[1] = showAll(e.scanHold(x.snaps[2], rate)) },
			}})
	}
	// S5: Visitor (refresh rate 1) while frees happen
	ds = append(ds, smrDriver{name: "S5-close-vs-visitor", writers: 1,
		setup: func(e *nEnv, x *smrCtx) {
			e.putL(0, "a", 1)
			e.putL(0, "b", 1)
			e.putL(0, "c", 0)
			snap(e, x)
			e.ws[0].Delete([]byte("b"))
			snap(e, x)
			nitro.VerifSetRefreshRate(e.db, 1)
		},
		threads: []func(e *nEnv, x *smrCtx){
			func(e *nEnv, x *smrCtx) { x.snaps[0].Close(); x.snaps[0] = nil },
			func(e *nEnv, x *smrCtx) {
				var got []string
				err := e.db.Visitor(x.snaps[1], func(itm *nitro.Item, shard int) error {
					bs := itm.Bytes()
					e.touch(bs, "item passed to the Visitor callback")
					got = append(got, string(bs))
					return nil
				}, 2, 1)
				x.res[1] = fmt.Sprint(showAll(got), err)
			},
		}})
	// S7: backup with delta interleaving (the visitor iterates on a released snapshot, only its barrier
	// session protects the current item) with refresh rate 1, against deletes + snapshot churn + collection
	for _, sc := range []int{1, 2} {
		sc := sc
		ds = append(ds, smrDriver{name: fmt.Sprintf("S7-delta-backup-shards%d-vs-churn", sc), writers: 1, delta: true,
			setup: func(e *nEnv, x *smrCtx) {
				vruntime.CPUs = sc // shard count = store concurrency: one shard holding every item, or two
				e.putL(0, "a", 1)
				e.putL(0, "b", 1)
				e.putL(0, "c", 0)
				e.putL(0, "d", 1)
				s := snap(e, x)
				s.Open() // the reference StoreToDisk consumes
				x.store = s
				nitro.VerifSetRefreshRate(e.db, 1)
			},
			threads: []func(e *nEnv, x *smrCtx){
				func(e *nEnv, x *smrCtx) { x.res[0] = fmt.Sprint(e.db.StoreToDisk(backupDir, x.store, sc, nil)) },
				func(e *nEnv, x *smrCtx) {
					x.snaps[0].Close()
					x.snaps[0] = nil
					e.ws[0].Delete([]byte("b"))
					e.ws[0].Delete([]byte("c"))
					s2, _ := e.db.NewSnapshot()
					s2.Close()
				},
			}})
	}
	// S9: the only upper-level node — hence the shard pivot of a two-shard Visitor — is a dead version that is
	// collected and freed while the visit runs
	ds = append(ds, smrDriver{name: "S9-visitor-pivot-collected", writers: 1,
		setup: func(e *nEnv, x *smrCtx) {
			e.putL(0, "a", 0)
			e.putL(0, "b", 1)
			e.putL(0, "c", 0)
			snap(e, x)
			e.ws[0].Delete([]byte("b"))
			snap(e, x)
			snap(e, x)
		},
		threads: []func(e *nEnv, x *smrCtx){
			func(e *nEnv, x *smrCtx) {
				var got []string
				err := e.db.Visitor(x.snaps[2], func(itm *nitro.Item, shard int) error {
					bs := itm.Bytes()
					e.touch(bs, "item passed to the Visitor callback")
					got = append(got, string(bs))
					vrt.Fence()
					return nil
				}, 2, 1)
				x.res[0] = fmt.Sprint(showAll(got), err)
				if fmt.Sprint(got) != "[a c]" {
					vrt.Fail("visitor", fmt.Sprintf("Visitor on the newest snapshot delivered %s instead of [a c] while older snapshots were closed and collected", showAll(got)))
				}
			},
			func(e *nEnv, x *smrCtx) { x.snaps[0].Close(); x.snaps[1].Close(); x.snaps[0], x.snaps[1] = nil, nil },
		}})
	// S6: Delete2 = lookup + DeleteNode against a same-epoch delete of the same key by another writer
	ds = append(ds, smrDriver{name: "S6-delete2-vs-delete", writers: 2,
		setup: func(e *nEnv, x *smrCtx) { e.putL(0, "k", 0) },
		threads: []func(e *nEnv, x *smrCtx){
			func(e *nEnv, x *smrCtx) { _, ok := e.ws[0].Delete2([]byte("k")); x.res[0] = fmt.Sprint(ok) },
			func(e *nEnv, x *smrCtx) { x.res[1] = fmt.Sprint(e.ws[1].Delete([]byte("k"))) },
		}})
	return ds
}

func runSmrDriver(jc *JobCtx, prop string, d smrDriver, model vrt.CostModel, bound int) {
	var outcome string
	body := func() {
		outcome = ""
		e := newNEnv(nCfg{mm: true, cmp: "default", writers: d.writers, delta: d.delta})
		if d.delta {
			resetFS()
		}
		x := &smrCtx{res: make([]string, len(d.threads))}
		vrt.NoBranch(true)
		if d.setup != nil {
			d.setup(e, x)
		}
		vrt.WaitIdle()
		var ths []*vrt.Thread
		for i, f := range d.threads {
			f := f
			ths = append(ths, vrt.GoNamed(fmt.Sprintf("T%d", i+1), func() { f(e, x) }))
		}
		vrt.NoBranch(false)
		vrt.Join(ths...)
		vrt.NoBranch(true)
		vrt.WaitIdle()
		if d.finish != nil {
			d.finish(e, x)
		}
		// stitch pending garbage into one more snapshot, close everything, let the workers finish
		s, err := e.db.NewSnapshot()
		if err != nil {
			vrt.Fail("set-semantics", err.Error())
		}
		x.snaps = append(x.snaps, s)
		for _, sn := range x.snaps {
			if sn != nil {
				sn.Close()
			}
		}
		vrt.WaitIdle()
		e.db.GC()
		vrt.WaitIdle()
		if prop == "C17" {
			// idle database: nothing unlinked may still be waiting for some future flush
			phys, pp := e.physDump()
			if pp != "" {
				vrt.Fail("structure", pp)
			}
			live, desc := e.ga.Live()
			if want := 2 + 2*len(phys); live != want {
				_, _, queued, _ := nitro.VerifStore(e.db).GetAccesBarrier().GetStats()
				vrt.Fail("barrier-liveness", fmt.Sprintf("the database is idle with %d linked nodes but the allocator still holds %d blocks (expected %d): unlinked nodes are waiting for a future flush (%d sessions queued): %s", len(phys), live, want, queued, desc))
			}
		}
		vos.FS = nil
		e.closing = true
		e.db.Close()
		if prop == "C07" {
			if n, desc := e.ga.Live(); n != 0 {
				vrt.Fail("leak", fmt.Sprintf("%d blocks were never returned to the allocator after Close(): %s", n, desc))
			}
		}
		outcome = fmt.Sprint(x.res)
	}
	jc.Sched(SchedOpts{Model: model, Bound: bound, Outcome: func(r *vrt.Result) string { return outcome }}, body, nil)
}

func smrJobs(prop string) func(tier string) []Job {
	return func(tier string) []Job {
		var jobs []Job
		for _, d := range smrDrivers(tier) {
			d := d
			delay := 2
			if tier == "thorough" {
				delay = 3
			}
			heavy := d.delta || d.writers >= 3
			if heavy && tier != "thorough" && (prop != "C04" || strings.Contains(d.name, "shards2")) {
				continue // quick tier: the one-shard backup and three-writer drivers run under C04 only
			}
			dshards := 2
			if heavy {
				dshards = 8
			}
			jobs = append(jobs, Job{Name: fmt.Sprintf("%s/conc/%s/delay%d", prop, d.name, delay), Shards: dshards, Run: func(jc *JobCtx) { runSmrDriver(jc, prop, d, vrt.CostDelay, delay) }})
			if heavy && tier != "thorough" {
				continue // preemption bounding of these drivers is thorough-tier work
			}
			shards := 8
			if tier == "thorough" {
				shards = 16
			}
			jobs = append(jobs, Job{Name: fmt.Sprintf("%s/conc/%s/preempt1", prop, d.name), Shards: shards, Run: func(jc *JobCtx) { runSmrDriver(jc, prop, d, vrt.CostPreempt, 1) }})
		}
		if prop == "C04" {
			b := 2
			if tier == "thorough" {
				b = 3
			}
			for _, mode := range []string{"refresh1", "explicit", "plain"} {
				mode := mode
				jobs = append(jobs, Job{Name: fmt.Sprintf("C04/skiplist/S8-delete-vs-iterator/%s/preempt%d", mode, b), Shards: 2, Run: func(jc *JobCtx) { runSlSmr(jc, mode, vrt.CostPreempt, b) }})
			}
		}
		return jobs
	}
}

func init() {
	register(&propDef{ID: "C04", Jobs: func(tier string) []Job {
		jobs := smrJobs("C04")(tier)
		// sequential histories on the guard allocator (incl. user-level chaining of live nodes through the link
		// field, as NodeList does): every free is checked, freed pages are inaccessible
		d := 4
		if tier == "thorough" {
			d = 5
		}
		jobs = append(jobs, seqJobs("C04", tier, []seqCfg{
			{nCfg: nCfg{cmp: "default", writers: 2, mm: true}, policy: "drain", depth: d, maxSnaps: 3},
			{nCfg: nCfg{cmp: "default", writers: 2, mm: true}, policy: "drain", depth: d - 1, maxSnaps: 3, init: "ab"},
		})...)
		return jobs
	},
		Rule:  "user-managed memory on the guard allocator (blocks outside the Go heap, one page-aligned slot per block, never reused, freed pages PROT_NONE, every hooked atomic access checked before it is performed, every free walks the structure at all levels); closed drivers: insert overtaken by a delete of the same node (height 1/2), two/three writers deleting the same key (same epoch / cross epoch), same-epoch delete against a lookup, same-epoch churn and snapshot closes (GC worker unlink -> flush -> free worker) against snapshot iterators with refresh rate 0/1 and against Visitor, Delete2 against Delete; all schedules of harness threads, GC workers and free workers within delay bound 2/3 and preemption bound 1; non-trivial = schedules deviating from the default with a context switch",
		Notes: []string{"items obtained from an open iterator are dereferenced again after a harness scheduling point", "the free-while-linked walk stops when Nitro.Close starts (it frees linked nodes by design)", "Go atomics sequentially consistent; plain reads of freed memory fault (SetPanicOnFault) and are reported with the faulting nitro function"}})
}

// S8: the skiplist package used directly with user-managed memory: a mutator deletes the node the
// iterator may be standing on and hands it to the barrier; the destructor frees node and item; the
// iterator refreshes its session after every step / pauses and resumes.
func runSlSmr(jc *JobCtx, mode string, model vrt.CostModel, bound int) {
	var outcome string
	body := func() {
		outcome = ""
		var e *slEnv
		destructor := func(ref unsafe.Pointer) {
			n := (*skiplist.Node)(ref)
			e.ga.Free(n.Item())
			e.s.FreeNode(n, &e.s.Stats)
		}
		e = newSlEnv(true, destructor)
		ga := e.ga
		vrt.FaultClassifier = func(addr uintptr) string {
			if ga.InArena(addr) {
				return "use-after-free"
			}
			return ""
		}
		s := e.s
		vrt.NoBranch(true)
		item := func(k int) unsafe.Pointer {
			p := ga.Malloc(8)
			*(*int)(p) = k
			return p
		}
		buf0 := s.MakeBuf()
		handles := map[int]*skiplist.Node{}
		for _, in := range []slInit{{10, 0}, {20, 1}, {30, 0}} {
			n, ok := s.Insert2(item(in.key), skiplist.CompareInt, nil, buf0, levelFn(in.level), &s.Stats)
			if !ok {
				panic("setup insert failed")
			}
			handles[in.key] = n
		}
		var got []int
		t1 := vrt.GoNamed("M", func() {
			buf := s.MakeBuf()
			n := handles[20]
			if s.DeleteNode(n, skiplist.CompareInt, buf, &s.Stats) {
				s.GetAccesBarrier().FlushSession(unsafe.Pointer(n))
			}
		})
		t2 := vrt.GoNamed("IT", func() {
			buf := s.MakeBuf()
			it := s.NewIterator(skiplist.CompareInt, buf)
			if mode == "refresh1" {
				it.SetRefreshInterval(1)
			}
			it.SeekFirst()
			for n := 0; it.Valid(); n++ {
				p := it.Get()
				ga.CheckLive(p, "item returned by an open skiplist iterator")
				got = append(got, *(*int)(p))
				vrt.Fence()
				if mode == "explicit" && n == 1 {
					it.Refresh()
				}
				if len(got) > 20 {
					break
				}
				it.Next()
			}
			it.Close()
		})
		vrt.NoBranch(false)
		vrt.Join(t1, t2)
		vrt.NoBranch(true)
		outcome = fmt.Sprint(got)
	}
	jc.Sched(SchedOpts{Model: model, Bound: bound, Outcome: func(r *vrt.Result) string { return outcome }}, body, nil)
}
