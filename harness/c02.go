package main

import "fmt"

// seqJobs builds the sequential-history jobs of a property: one job per configuration and first operation.
func seqJobs(prop string, tier string, cfgs []seqCfg) []Job {
	var jobs []Job
	for _, sc := range cfgs {
		sc := sc
		sc.prop = prop
		// the empty initial state enables 14 operations (4+2 w0 puts/deletes, snapshot, 2x2 w1, 2 lookups,
		// stop); the populated one adds close and DeleteNode handles (an index beyond the list ends the job)
		nfirst := 13
		init := "empty"
		if sc.init != "" {
			nfirst = 18
			init = sc.init
		}
		if sc.salt != 0 {
			init += fmt.Sprintf("+salt%d", sc.salt)
		}
		for f := 0; f < nfirst; f++ {
			f := f
			jobs = append(jobs, Job{Name: fmt.Sprintf("%s/seq/%s/%s/%s/d%d/first=%d", prop, sc.nCfg, sc.policy, init, sc.depth, f), Run: func(jc *JobCtx) { runSeq(jc, sc, []int{f}) }})
		}
	}
	return jobs
}

func seqCfgs(tier string, modes []bool, cmps []string, policies []string, depthQuick, depthThorough int) []seqCfg {
	var out []seqCfg
	d := depthQuick
	if tier == "thorough" {
		d = depthThorough
	}
	for _, mm := range modes {
		for _, c := range cmps {
			for _, p := range policies {
				out = append(out, seqCfg{nCfg: nCfg{mm: mm, cmp: c, writers: 2}, policy: p, depth: d, maxSnaps: 3})
				out = append(out, seqCfg{nCfg: nCfg{mm: mm, cmp: c, writers: 2}, policy: p, depth: d - 1, maxSnaps: 3, init: "ab"})
			}
		}
	}
	return out
}

func init() {
	register(&propDef{ID: "C02",
		Jobs: func(tier string) []Job {
			return seqJobs("C02", tier, seqCfgs(tier, []bool{false, true}, []string{"default", "kv", "rev"}, []string{"drain", "starve"}, 5, 6))
		},
		Rule:  "every operation sequence up to the depth over {Put2(k,v), Delete, Delete2, DeleteNode(handle), GetNode, NewSnapshot, Close(oldest|newest)} with k in {a,b}, v in {1,2}, two writers, from one goroutine; background workers drained after every call or starved until the end; default, key-only (CompareKV) and reversed comparators; both memory modes; equivalent prefixes merged by a state key (model + physical dump + statistics); every return value and, after every NewSnapshot, ItemsCount / Count / scan are compared with an MVCC reference set; non-trivial = distinct states reached",
		Notes: []string{"DeleteNode is only issued for handles whose node is still physically linked (a handle to an unlinked node is dangling by contract)", "levels are a fixed function of the item bytes", "at most 3 snapshots per history"}})
}
