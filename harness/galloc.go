package main

import (
	"fmt"
	"syscall"
	"unsafe"

	"github.com/couchbase/nitro/zzverif/vrt"
)

// Guard allocator: blocks come from an mmap'ed arena outside the Go heap, one
// page-aligned slot per block placed at the END of its page(s), never reused
// within an execution. Freed pages become PROT_NONE so that any plain access to
// a freed block faults (debug.SetPanicOnFault turns that into a recoverable
// panic), and every hooked atomic access is checked before it is performed.

const gaPage = 4096
const gaPages = 16384 // 64 MiB of address space

type gaBlock struct {
	size    int
	pages   int
	freed   bool
	allocBy string
	freeBy  string
}

type GuardAlloc struct {
	arena  []byte
	base   uintptr
	next   int        // next free page
	blocks []*gaBlock // first page -> block
	owner  []int32    // page -> first page of its block (+1), 0 = none
	Allocs int
	Frees  int
	Strict bool
	// OnFree is called before a block is released (e.g. to check it is not still linked).
	OnFree func(p unsafe.Pointer, size int)
	// Quiet: record violations as notes instead of failing the execution immediately.
	firstViol string
	dirtyTo   int
}

var gaArena []byte

func newGuardAlloc() *GuardAlloc {
	if gaArena == nil {
		var err error
		gaArena, err = syscall.Mmap(-1, 0, gaPages*gaPage, syscall.PROT_READ|syscall.PROT_WRITE, syscall.MAP_ANON|syscall.MAP_PRIVATE)
		if err != nil {
			panic(err)
		}
	}
	if gaOwner == nil {
		gaOwner = make([]int32, gaPages)
		gaBlocks = make([]*gaBlock, gaPages)
	}
	return &GuardAlloc{arena: gaArena, base: uintptr(unsafe.Pointer(&gaArena[0])), blocks: gaBlocks, owner: gaOwner, Strict: true}
}

// side tables shared by successive allocators (only the range used by the previous execution is reset)
var gaOwner []int32
var gaBlocks []*gaBlock

var gaPrev *GuardAlloc

// gaFresh returns an allocator over the (shared) arena for a new execution, making the pages
// used by the previous execution accessible again.
func gaFresh() *GuardAlloc {
	a := newGuardAlloc()
	if gaPrev != nil && gaPrev.next > 0 {
		syscall.Mprotect(a.arena[:gaPrev.next*gaPage], syscall.PROT_READ|syscall.PROT_WRITE)
		for i := 0; i < gaPrev.next; i++ {
			gaOwner[i] = 0
			gaBlocks[i] = nil
		}
	}
	gaPrev = a
	return a
}

func who() string {
	if t := vrt.Cur(); t != nil {
		return fmt.Sprintf("%s@%d", t.Name, vrt.Now())
	}
	return "-"
}

func (a *GuardAlloc) Malloc(n int) unsafe.Pointer {
	if n <= 0 {
		n = 1
	}
	np := (n + gaPage - 1) / gaPage
	if a.next+np > gaPages {
		panic("guard allocator: arena exhausted")
	}
	i := a.next
	a.next += np
	a.blocks[i] = &gaBlock{size: n, pages: np, allocBy: who()}
	for k := 0; k < np; k++ {
		a.owner[i+k] = int32(i + 1)
	}
	pg := a.arena[i*gaPage : (i+np)*gaPage]
	a.Allocs++
	// place the block at the END of its pages so overruns fault too (16-byte aligned); uninitialised
	// content is a fixed pattern so that reads of it are deterministic
	off := (np*gaPage - n) &^ 15
	blk := pg[off:]
	for j := range blk {
		blk[j] = 0xAA
	}
	return unsafe.Pointer(&pg[off])
}

func (a *GuardAlloc) pageOf(p uintptr) int {
	if p < a.base || p >= a.base+uintptr(len(a.arena)) {
		return -1
	}
	return int((p - a.base) / gaPage)
}

// blockOf returns the block containing address p (nil if p is outside the arena or in no block).
func (a *GuardAlloc) blockOf(p uintptr) (*gaBlock, int) {
	pg := a.pageOf(p)
	if pg < 0 {
		return nil, -1
	}
	if a.owner[pg] == 0 {
		return nil, pg
	}
	first := int(a.owner[pg] - 1)
	return a.blocks[first], first
}

func (a *GuardAlloc) InArena(p uintptr) bool { return a.pageOf(p) >= 0 }

func (a *GuardAlloc) start(first int) uintptr {
	b := a.blocks[first]
	off := (b.pages*gaPage - b.size) &^ 15
	return a.base + uintptr(first*gaPage+off)
}

func (a *GuardAlloc) viol(kind, msg string) {
	if a.firstViol == "" {
		a.firstViol = kind + ": " + msg
	}
	vrt.Fail(kind, msg)
}

func (a *GuardAlloc) Free(p unsafe.Pointer) {
	b, first := a.blockOf(uintptr(p))
	if b == nil {
		a.viol("invalid-free", fmt.Sprintf("free of %#x which was never allocated", uintptr(p)))
		return
	}
	if uintptr(p) != a.start(first) {
		a.viol("invalid-free", fmt.Sprintf("free of interior pointer %#x (block starts at %#x)", uintptr(p), a.start(first)))
		return
	}
	if b.freed {
		a.viol("double-free", fmt.Sprintf("block of %d bytes allocated by %s freed by %s and again by %s", b.size, b.allocBy, b.freeBy, who()))
		return
	}
	if a.OnFree != nil {
		a.OnFree(p, b.size)
	}
	b.freed = true
	b.freeBy = who()
	a.Frees++
	if a.Strict {
		syscall.Mprotect(a.arena[first*gaPage:(first+b.pages)*gaPage], syscall.PROT_NONE)
	} else {
		pg := a.arena[first*gaPage : (first+b.pages)*gaPage]
		for j := range pg {
			pg[j] = 0xDD
		}
	}
}

// Access is installed as vrt.AccessHook: every instrumented atomic access is checked first.
func (a *GuardAlloc) Access(p, size uintptr, k vrt.OpKind) {
	pg := a.pageOf(p)
	if pg < 0 {
		return // Go memory
	}
	b, _ := a.blockOf(p)
	if b == nil {
		a.viol("use-after-free", fmt.Sprintf("hooked %s of %#x inside the arena but outside any block (wild pointer)", k, p))
		return
	}
	if b.freed {
		a.viol("use-after-free", fmt.Sprintf("hooked %s of a block (%d bytes, allocated by %s) freed by %s", k, b.size, b.allocBy, b.freeBy))
	}
}

// CheckLive verifies that the block containing p is live (used by harness callbacks on item bytes).
func (a *GuardAlloc) CheckLive(p unsafe.Pointer, what string) {
	b, _ := a.blockOf(uintptr(p))
	if a.pageOf(uintptr(p)) < 0 {
		return
	}
	if b == nil {
		a.viol("use-after-free", what+": pointer into the arena outside any block")
		return
	}
	if b.freed {
		a.viol("use-after-free", fmt.Sprintf("%s: block (%d bytes, allocated by %s) was freed by %s", what, b.size, b.allocBy, b.freeBy))
	}
}

// IsFreed reports whether p points into a freed block.
func (a *GuardAlloc) IsFreed(p unsafe.Pointer) bool {
	b, _ := a.blockOf(uintptr(p))
	return b != nil && b.freed
}

// Live returns the number of blocks not yet freed and a description of up to 4 of them.
func (a *GuardAlloc) Live() (int, string) {
	n := 0
	desc := ""
	for i := 0; i < a.next; i++ {
		if b := a.blocks[i]; b != nil && !b.freed {
			n++
			if n <= 4 {
				desc += fmt.Sprintf("[%dB by %s] ", b.size, b.allocBy)
			}
		}
	}
	return n, desc
}
