package main

// Helpers for the backup / restore checks (C05, C11, C12): all file operations of the
// instrumented nitro package go to the in-memory file system of the os shim.

import (
	"fmt"
	"sort"
	"strings"

	"github.com/couchbase/nitro"
	vos "github.com/couchbase/nitro/zzverif/os"
	"github.com/couchbase/nitro/zzverif/rand"
	vruntime "github.com/couchbase/nitro/zzverif/runtime"
	"github.com/couchbase/nitro/zzverif/vrt"
)

const backupDir = "/backup"

// restored is a fresh instance populated by LoadFromDisk.
type restored struct {
	db      *nitro.Nitro
	snap    *nitro.Snapshot
	err     error
	content []string
	count   int64
}

// newInstance creates an instance with the configuration of cfg sharing the allocator ga (may be nil).
func newInstance(cfg nCfg, ga *GuardAlloc) *nitro.Nitro {
	c := nitro.DefaultConfig()
	if kc := cfg.keyCmp(); kc != nil {
		c.SetKeyComparator(kc)
	}
	if cfg.mm && ga != nil {
		c.UseMemoryMgmt(ga.Malloc, ga.Free)
	}
	if cfg.delta {
		c.UseDeltaInterleaving()
	}
	return nitro.NewWithConfig(c)
}

// loadBackup restores dir (of the current in-memory file system) into a fresh instance.
func loadBackup(cfg nCfg, ga *GuardAlloc, conc int) *restored {
	r := &restored{}
	r.db = newInstance(cfg, ga)
	r.snap, r.err = r.db.LoadFromDisk(backupDir, conc, nil)
	if r.err == nil && r.snap != nil {
		r.count = r.snap.Count()
		var p string
		r.content, p = scanSnap(r.snap)
		if p != "" {
			r.err = fmt.Errorf("scan of the restored snapshot: %s", p)
		}
	}
	return r
}

func (r *restored) close() {
	if r.snap != nil {
		r.snap.Close()
	}
	r.db.Close()
}

func fsSummary(fs *vos.MemFS) string {
	var parts []string
	for _, p := range fs.Paths() {
		d, _ := fs.Get(p)
		parts = append(parts, fmt.Sprintf("%s(%d)", strings.TrimPrefix(p, backupDir+"/"), len(d)))
	}
	return strings.Join(parts, " ")
}

// ---- a canned database for the damage / fault checks ----

type cannedDB struct {
	name    string
	cfg     nCfg
	ncpu    int
	items   []string // inserted in this order, level = levelOf(item, salt)
	levels  []int
	delta   bool
	dup     bool     // delta mode: the callback deletes the item just written (it ends up in data AND delta)
	content []string // filled by build: content of the stored snapshot
}

var cannedDBs = []cannedDB{
	// one non-empty shard, the other shard empty
	{name: "one-shard", cfg: nCfg{cmp: "default", writers: 1}, ncpu: 2, items: []string{"a1"}, levels: []int{0}},
	// several non-empty shards (an upper-level node gives a pivot)
	{name: "two-shards", cfg: nCfg{cmp: "default", writers: 1}, ncpu: 2, items: []string{"a1", "b1", "c1", "d1"}, levels: []int{0, 1, 1, 0}},
	// delta interleaving with a non-empty delta file
	{name: "delta", cfg: nCfg{cmp: "default", writers: 1, delta: true}, ncpu: 2, items: []string{"a1", "b1", "c1", "d1"}, levels: []int{0, 1, 1, 0}, delta: true},
	// one shard whose four items XOR to zero: the XOR-of-CRC32 checksum of the shard is 0
	{name: "xor-zero", cfg: nCfg{cmp: "default", writers: 1}, ncpu: 1, items: []string{"`1", "a1", "b1", "c1"}, levels: []int{0, 1, 0, 1}},
	// two writers: two delta shard files (more delta shards than loader goroutines at load concurrency 1)
	{name: "delta-2w", cfg: nCfg{cmp: "default", writers: 2, delta: true}, ncpu: 2, items: []string{"a1", "b1", "c1", "d1"}, levels: []int{0, 1, 1, 0}, delta: true},
}

// buildBackup creates the canned database inside the current execution, stores its snapshot with the
// given concurrency into the current in-memory file system and returns the StoreToDisk result.
// In delta mode the item callback deletes the last item and churns snapshots during the scan so that
// a GC worker has to log it into the delta file.
func buildBackup(c *cannedDB, storeConc int) (e *nEnv, err error) {
	vruntime.CPUs = c.ncpu
	e = newNEnv(c.cfg)
	vruntime.CPUs = c.ncpu
	for i, it := range c.items {
		e.levels[0] = c.levels[i]
		if e.ws[0].Put2([]byte(it)) == nil {
			vrt.Fail("set-semantics", "setup Put failed")
		}
	}
	s, _ := e.db.NewSnapshot()
	c.content = append([]string{}, c.items...)
	sort.Strings(c.content)
	var cb nitro.ItemCallback
	if c.delta {
		fired := false
		cb = func(*nitro.ItemEntry) {
			if fired {
				return
			}
			fired = true
			last := c.items[len(c.items)-1]
			if c.dup {
				last = c.content[0] // the item the visitor has just written
			}
			e.ws[0].Delete([]byte(last))
			s2, _ := e.db.NewSnapshot()
			s2.Close() // every snapshot up to the deletion epoch is closed: the GC worker unlinks the item
			vrt.WaitIdle()
		}
	}
	err = e.db.StoreToDisk(backupDir, s, storeConc, cb)
	vrt.WaitIdle()
	return e, err
}

func resetLevels() {
	rand.NextLevel = func(int) int { return 0 }
}
