package main

// C08: snapshot handles — the reference count never leaves zero.

import (
	"fmt"
	"strings"

	"github.com/couchbase/nitro"
	"github.com/couchbase/nitro/zzverif/vrt"
)

type rcOp struct {
	kind string // close | open | iter | open2 (open twice) | closeX (close another snapshot)
	snap int    // index of the snapshot (0 = S1, 1 = S2)
}

func (o rcOp) String() string { return fmt.Sprintf("%s(S%d)", o.kind, o.snap+1) }

type rcDriver struct {
	garbage bool
	threads []rcOp
}

func (d rcDriver) name() string {
	var ts []string
	for _, t := range d.threads {
		ts = append(ts, t.String())
	}
	g := "empty"
	if d.garbage {
		g = "garbage"
	}
	return g + "/" + strings.Join(ts, "|")
}

func rcDrivers(tier string) []rcDriver {
	var out []rcDriver
	for _, g := range []bool{false, true} {
		for s := 0; s < 2; s++ {
			out = append(out,
				rcDriver{g, []rcOp{{"close", s}, {"open", s}}},
				rcDriver{g, []rcOp{{"close", s}, {"iter", s}}},
				rcDriver{g, []rcOp{{"close", s}, {"open2", s}}},
				rcDriver{g, []rcOp{{"close", s}, {"open", s}, {"iter", s}}},
			)
		}
		out = append(out,
			rcDriver{g, []rcOp{{"close", 0}, {"close", 1}}},
			rcDriver{g, []rcOp{{"close", 0}, {"close", 1}, {"open", 0}}},
			rcDriver{g, []rcOp{{"close", 0}, {"close", 1}, {"iter", 1}}},
			rcDriver{g, []rcOp{{"close", 1}, {"open", 1}, {"close", 0}}},
		)
	}
	return out
}

func runRcDriver(jc *JobCtx, d rcDriver, bound int) {
	var outcome string
	body := func() {
		outcome = ""
		e := newNEnv(nCfg{cmp: "default", writers: 1})
		vrt.NoBranch(true)
		// three snapshots S1 < S2 < S3, optionally with garbage in each epoch
		var snaps []*nitro.Snapshot
		var contents [][]string
		take := func() {
			s, err := e.db.NewSnapshot()
			if err != nil {
				vrt.Fail("refcount", "NewSnapshot: "+err.Error())
			}
			_, c := e.m.Snapshot()
			snaps = append(snaps, s)
			contents = append(contents, c)
		}
		mput := func(k string) { e.put(0, []byte(k)); e.m.Put(k) }
		mdel := func(k string) { e.ws[0].Delete([]byte(k)); e.m.DeleteKey(k) }
		if d.garbage {
			mput("a1")
			mput("b1")
			take()
			mdel("a1")
			mput("c1")
			take()
			mdel("b1")
			take()
		} else {
			take()
			take()
			take()
		}
		vrt.WaitIdle()
		held := []int{1, 1, 1} // references the harness still has to drop per snapshot
		type rcEv struct {
			op        rcOp
			ok        bool
			call, ret int
			delta     int
		}
		var evs []rcEv
		listed := func(s *nitro.Snapshot) bool {
			for _, x := range e.db.GetSnapshots() {
				if x == s {
					return true
				}
			}
			return false
		}
		observe := func(si int, who string) {
			// a successful opener holds a reference: the snapshot must still be live and intact
			if !listed(snaps[si]) {
				vrt.Fail("refcount", fmt.Sprintf("%s succeeded on S%d but the snapshot is no longer listed by GetSnapshots (it was already retired)", who, si+1))
			}
			got, p := scanSnap(snaps[si])
			if p != "" {
				vrt.Fail("refcount", fmt.Sprintf("%s holds S%d: %s", who, si+1, p))
			}
			if fmt.Sprint(got) != fmt.Sprint(contents[si]) {
				vrt.Fail("snapshot-isolation", fmt.Sprintf("%s holds S%d which scans %s instead of %s", who, si+1, showAll(got), showAll(contents[si])))
			}
		}
		var ths []*vrt.Thread
		for ti, op := range d.threads {
			ti, op := ti, op
			ths = append(ths, vrt.GoNamed(fmt.Sprintf("T%d", ti+1), func() {
				s := snaps[op.snap]
				switch op.kind {
				case "close":
					call := vrt.Fence()
					s.Close()
					evs = append(evs, rcEv{op, true, call, vrt.Fence(), -1})
				case "open", "open2":
					n := 1
					if op.kind == "open2" {
						n = 2
					}
					opened := 0
					for i := 0; i < n; i++ {
						call := vrt.Fence()
						ok := s.Open()
						evs = append(evs, rcEv{rcOp{"open", op.snap}, ok, call, vrt.Fence(), 1})
						if ok {
							opened++
							observe(op.snap, "Open")
						}
					}
					for i := 0; i < opened; i++ {
						call := vrt.Fence()
						s.Close()
						evs = append(evs, rcEv{rcOp{"close", op.snap}, true, call, vrt.Fence(), -1})
					}
				case "iter":
					call := vrt.Fence()
					it := s.NewIterator()
					evs = append(evs, rcEv{rcOp{"open", op.snap}, it != nil, call, vrt.Fence(), 1})
					if it != nil {
						if !listed(s) {
							vrt.Fail("refcount", fmt.Sprintf("NewIterator succeeded on S%d but the snapshot is no longer listed by GetSnapshots (it was already retired)", op.snap+1))
						}
						var got []string
						for it.SeekFirst(); it.Valid(); it.Next() {
							got = append(got, string(it.Get()))
							if len(got) > 50 {
								break
							}
						}
						if fmt.Sprint(got) != fmt.Sprint(contents[op.snap]) {
							vrt.Fail("snapshot-isolation", fmt.Sprintf("iterator on S%d yields %s instead of %s", op.snap+1, showAll(got), showAll(contents[op.snap])))
						}
						call := vrt.Fence()
						it.Close()
						evs = append(evs, rcEv{rcOp{"close", op.snap}, true, call, vrt.Fence(), -1})
					}
				}
			}))
		}
		for _, op := range d.threads {
			if op.kind == "close" {
				held[op.snap]--
			}
		}
		vrt.NoBranch(false)
		vrt.Join(ths...)
		vrt.NoBranch(true)
		// Open / NewIterator results must linearize against the counter model (ok <=> count > 0)
		for si := 0; si < 2; si++ {
			var h []linOp
			var desc []string
			for _, ev := range evs {
				if ev.op.snap != si {
					continue
				}
				ev := ev
				desc = append(desc, fmt.Sprintf("%s=%v@[%d,%d]", ev.op.kind, ev.ok, ev.call, ev.ret))
				h = append(h, linOp{Call: ev.call, Ret: ev.ret, Apply: func(st string) (string, bool) {
					var c int
					fmt.Sscanf(st, "%d", &c)
					if ev.op.kind == "close" {
						if c <= 0 {
							return st, false
						}
						return fmt.Sprint(c - 1), true
					}
					if c > 0 {
						return fmt.Sprint(c + 1), ev.ok
					}
					return st, !ev.ok
				}})
			}
			if ok, _ := linearizable(h, "1"); !ok {
				vrt.Fail("refcount", fmt.Sprintf("operations on S%d do not linearize against the counter model (Open succeeds iff count > 0): %v", si+1, desc))
			}
		}
		// drop the remaining references, force a pass: the collector must reach the newest epoch
		for si, n := range held {
			for i := 0; i < n; i++ {
				snaps[si].Close()
			}
		}
		vrt.WaitIdle()
		// the last Close ran alone and triggers a collection pass by itself: nothing may be left for a forced one
		if l := e.db.GetLastGCSn(); l != 3 {
			vrt.Fail("gc-stuck", fmt.Sprintf("every handle is closed (the last Close ran alone) but GetLastGCSn()=%d without a forced GC() (retired, uncollected epochs: %v): closes no longer drive the collector", l, nitro.VerifRetired(e.db)))
		}
		e.db.GC()
		vrt.WaitIdle()
		if l := e.db.GetLastGCSn(); l != 3 {
			vrt.Fail("gc-stuck", fmt.Sprintf("every handle is closed but GetLastGCSn()=%d (retired, uncollected epochs: %v; still listed: %v): the collector is blocked", l, nitro.VerifRetired(e.db), nitro.VerifOpenSnapshots(e.db)))
		}
		if r := nitro.VerifRetired(e.db); len(r) != 0 {
			vrt.Fail("gc-stuck", fmt.Sprintf("every handle is closed but snapshots %v are still waiting for collection", r))
		}
		if o := nitro.VerifOpenSnapshots(e.db); len(o) != 0 {
			vrt.Fail("refcount", fmt.Sprintf("every handle is closed but snapshots %v are still listed as open", o))
		}
		phys, pp := e.physDump()
		if pp != "" {
			vrt.Fail("structure", pp)
		}
		if len(phys) != len(e.m.liveSet()) {
			vrt.Fail("gc-stuck", fmt.Sprintf("every snapshot is closed but %d versions are physically present for %d live items: %s", len(phys), len(e.m.liveSet()), physString(phys)))
		}
		e.db.Close() // must terminate (its polling loops are yields; a stuck collector shows as livelock)
		var rs []string
		for _, ev := range evs {
			rs = append(rs, fmt.Sprintf("%s%d=%v", ev.op.kind, ev.op.snap+1, ev.ok))
		}
		outcome = strings.Join(rs, ",")
	}
	jc.Sched(SchedOpts{Model: vrt.CostPreempt, Bound: bound, Outcome: func(r *vrt.Result) string { return outcome }}, body, nil)
}

func c08Jobs(tier string) []Job {
	var jobs []Job
	for _, d := range rcDrivers(tier) {
		d := d
		bound := 2
		shards := 8
		if tier == "thorough" {
			bound = 3
			shards = 16
		}
		jobs = append(jobs, Job{Name: fmt.Sprintf("C08/%s/c%d", d.name(), bound), Shards: shards, Run: func(jc *JobCtx) { runRcDriver(jc, d, bound) }})
	}
	return jobs
}

func init() {
	register(&propDef{ID: "C08", Jobs: c08Jobs,
		Rule:  "three snapshots S1<S2<S3 (with and without garbage in every epoch), 2-3 threads each doing the final Close of S1/S2, Open+observe+Close, NewIterator+scan+Close, or Open twice; all schedules within preemption bound 2 (quick) / 3 (thorough); Open/NewIterator results must linearize against the counter model, a successful opener must find the snapshot still listed and intact, and after all handles are closed and GC() the collector must have reached the newest epoch with nothing retired, nothing listed, only live items present, and Close() must terminate; non-trivial = schedules deviating from the default with a context switch",
		Notes: []string{"Go-managed memory"}})
}
