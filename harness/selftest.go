package main

// Engine selftest: the explorer must find four classic concurrency bugs in toy programs at
// their minimal bound, with a replayable schedule, and must stay silent on the corrected toys.

import (
	"encoding/json"
	"fmt"
	"os"
	"path/filepath"
	"time"

	vatomic "github.com/couchbase/nitro/zzverif/atomic"
	vsync "github.com/couchbase/nitro/zzverif/sync"
	"github.com/couchbase/nitro/zzverif/vrt"
)

type toy struct {
	name     string
	body     func()
	wantKind string // "" = must hold
	minBound int    // smallest preemption bound at which the bug must be found
}

func toys() []toy {
	lostUpdate := func(fixed bool) func() {
		return func() {
			var c int32
			inc := func() {
				if fixed {
					vatomic.AddInt32(&c, 1)
					return
				}
				v := vatomic.LoadInt32(&c)
				vatomic.StoreInt32(&c, v+1)
			}
			t1 := vrt.GoNamed("A", inc)
			t2 := vrt.GoNamed("B", inc)
			vrt.Join(t1, t2)
			if c != 2 {
				vrt.Fail("lost-update", fmt.Sprintf("counter=%d after two increments", c))
			}
		}
	}
	abba := func(fixed bool) func() {
		return func() {
			var a, b vsync.Mutex
			t1 := vrt.GoNamed("A", func() { a.Lock(); b.Lock(); b.Unlock(); a.Unlock() })
			t2 := vrt.GoNamed("B", func() {
				if fixed {
					a.Lock()
					b.Lock()
					b.Unlock()
					a.Unlock()
					return
				}
				b.Lock()
				a.Lock()
				a.Unlock()
				b.Unlock()
			})
			vrt.Join(t1, t2)
		}
	}
	// work queue drained under a try-lock: an item queued while the owner is leaving is lost
	tryLock := func(fixed bool) func() {
		return func() {
			var queued, done, flag, req int32
			drain := func() {
				for {
					n := vatomic.SwapInt32(&queued, 0)
					if n == 0 {
						return
					}
					vatomic.AddInt32(&done, n)
				}
			}
			submit := func() {
				vatomic.AddInt32(&queued, 1)
				if fixed {
					vatomic.AddInt32(&req, 1)
					for vatomic.LoadInt32(&req) > 0 && vatomic.CompareAndSwapInt32(&flag, 0, 1) {
						vatomic.StoreInt32(&req, 0)
						drain()
						vatomic.StoreInt32(&flag, 0)
					}
					return
				}
				if vatomic.CompareAndSwapInt32(&flag, 0, 1) {
					drain()
					vatomic.StoreInt32(&flag, 0)
				}
			}
			t1 := vrt.GoNamed("A", submit)
			t2 := vrt.GoNamed("B", submit)
			vrt.Join(t1, t2)
			if done != 2 {
				vrt.Fail("lost-wakeup", fmt.Sprintf("%d of 2 items processed at quiescence", done))
			}
		}
	}
	// producer sends two values on an unbuffered channel; the consumer leaves after the first one
	exiting := func(fixed bool) func() {
		return func() {
			ch := make(chan int)
			t1 := vrt.GoNamed("P", func() { vrt.ChanSend(ch, 1); vrt.ChanSend(ch, 2) })
			t2 := vrt.GoNamed("C", func() {
				vrt.ChanRecv(ch)
				if fixed {
					vrt.ChanRecv(ch)
				}
			})
			vrt.Join(t1, t2)
		}
	}
	return []toy{
		{"lost-update", lostUpdate(false), "lost-update", 1},
		{"lost-update-fixed", lostUpdate(true), "", 0},
		{"ab-ba-deadlock", abba(false), "deadlock", 1},
		{"ab-ba-fixed", abba(true), "", 0},
		{"try-lock-lost-wakeup", tryLock(false), "lost-wakeup", 1},
		{"try-lock-fixed", tryLock(true), "", 0},
		{"exiting-consumer", exiting(false), "deadlock", 0},
		{"exiting-consumer-fixed", exiting(true), "", 0},
	}
}

func cmdSelftest() int {
	t0 := time.Now()
	type row struct {
		Toy        string `json:"toy"`
		Expect     string `json:"expect"`
		FoundAt    int    `json:"found_at_bound"`
		Executions int    `json:"executions"`
		Replayed   bool   `json:"replay_reproduces"`
		OK         bool   `json:"ok"`
	}
	var rows []row
	allOK := true
	var execs, trans, nodes int
	for _, ty := range toys() {
		r := row{Toy: ty.name, Expect: ty.wantKind, FoundAt: -1}
		for b := 0; b <= 2; b++ {
			st := vrt.Explore(vrt.Opts{Model: vrt.CostPreempt, Bound: b, Horizon: 10000, StopOnViolation: true}, ty.body, nil)
			r.Executions += st.Executions
			execs += st.Executions
			trans += st.Transitions
			nodes += st.Nodes
			if len(st.Violations) > 0 {
				v := st.Violations[0]
				r.FoundAt = b
				// the recorded schedule must reproduce the same verdict, twice
				a := vrt.Run(v.Choices, nil, false, 10000, ty.body)
				c := vrt.Run(v.Choices, nil, false, 10000, ty.body)
				r.Replayed = a.Verdict.Kind == v.Verdict.Kind && c.Verdict.Kind == v.Verdict.Kind && a.ObsHash == c.ObsHash
				if ty.wantKind == "" || v.Verdict.Kind != ty.wantKind {
					r.Expect += " (got " + v.Verdict.Kind + ")"
				}
				break
			}
		}
		if ty.wantKind == "" {
			r.OK = r.FoundAt == -1
		} else {
			r.OK = r.FoundAt == ty.minBound && r.Replayed
		}
		if !r.OK {
			allOK = false
		}
		rows = append(rows, r)
		fmt.Printf("selftest %-26s expect=%-12q found_at_bound=%d executions=%d ok=%v\n", r.Toy, ty.wantKind, r.FoundAt, r.Executions, r.OK)
	}
	ev := map[string]interface{}{
		"property_id": "selftest", "tier": "quick", "seed": 0, "level": "model_checking",
		"coverage": map[string]interface{}{"states": nodes, "transitions": trans, "traces_validated_against_impl": execs, "samples": rows,
			"rule": "engine selftest: four toy programs with a known concurrency bug must be reported at their minimal preemption bound with a reproducing schedule; the corrected toys must not be reported at bounds 0-2"},
		"wall_s": time.Since(t0).Seconds(),
	}
	bs, _ := json.MarshalIndent(ev, "", " ")
	os.WriteFile(filepath.Join(verifDir, "evidence", "selftest.json"), bs, 0644)
	if !allOK {
		fmt.Println("ERROR: engine selftest failed")
		return 2
	}
	fmt.Println("engine selftest ok")
	return 0
}
