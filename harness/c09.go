package main

// C09: iterator positioning is exact and independent of refresh.
// At every state reached by the history exploration (version histories with several
// physical versions of a key), for every open snapshot, every iterator operation
// sequence up to a depth over {SeekFirst, Seek(x), Next, Refresh, SetRefreshRate(r)}
// is run on a fresh iterator and compared step by step with a model iterator (an index
// into the snapshot's reference content). Iterators do not mutate the database, so
// all sequences run inside the same execution.

import (
	"fmt"
	"sort"
	"strings"

	"github.com/couchbase/nitro"
	"github.com/couchbase/nitro/skiplist"
)

type itOp struct {
	kind string // first seek next refresh rate
	key  []byte
	name string
	rate int
}

func c09Ops(cfg nCfg) []itOp {
	ops := []itOp{{kind: "first", name: "SeekFirst"}}
	var targets [][2]string
	if cfg.cmp == "kv" {
		targets = [][2]string{{"A", ""}, {"a", "9"}, {"aa", ""}, {"b", "0"}, {"c", ""}}
	} else {
		targets = [][2]string{{"A", ""}, {"a", "1"}, {"a", "2"}, {"a", "5"}, {"b", "1"}, {"b", "2"}, {"z", ""}}
	}
	for _, t := range targets {
		bs := cfg.itemBytes(t[0], t[1])
		ops = append(ops, itOp{kind: "seek", key: bs, name: "Seek(" + show(string(bs)) + ")"})
	}
	ops = append(ops, itOp{kind: "next", name: "Next"}, itOp{kind: "refresh", name: "Refresh"})
	for _, r := range []int{1, 2, 0} {
		ops = append(ops, itOp{kind: "rate", rate: r, name: fmt.Sprintf("SetRefreshRate(%d)", r)})
	}
	return ops
}

// itReplay runs seq on a fresh iterator of snapshot s against the model; returns a problem or a state key.
// ok=false means the sequence is outside the alphabet (Next on an invalid iterator).
func itReplay(e *nEnv, s *openSnap, ops []itOp, seq []int) (problem string, key string, ok bool) {
	it := s.s.NewIterator()
	if it == nil {
		return "NewIterator returned nil on an open snapshot", "", true
	}
	defer it.Close()
	pos := -1
	content := s.content
	names := func(n int) string {
		var o []string
		for _, i := range seq[:n] {
			o = append(o, ops[i].name)
		}
		return strings.Join(o, ",")
	}
	for i, oi := range seq {
		op := ops[oi]
		switch op.kind {
		case "first":
			it.SeekFirst()
			pos = 0
		case "seek":
			it.Seek(op.key)
			k := e.cfg.keyOf(string(op.key))
			pos = sort.Search(len(content), func(j int) bool {
				kj := e.cfg.keyOf(content[j])
				if e.cfg.cmp == "rev" {
					return kj <= k
				}
				return kj >= k
			})
		case "next":
			if pos < 0 || pos >= len(content) {
				return "", "", false
			}
			it.Next()
			pos++
		case "refresh":
			if pos < 0 {
				return "", "", false
			}
			it.Refresh()
		case "rate":
			it.SetRefreshRate(op.rate)
		}
		if pos >= 0 {
			valid := it.Valid()
			if valid != (pos < len(content)) {
				return fmt.Sprintf("snapshot epoch %d content %s: after %s Valid()=%v, the model iterator is at index %d of %d", s.sn, showAll(content), names(i+1), valid, pos, len(content)), "", true
			}
			if valid {
				if got := string(it.Get()); got != content[pos] {
					return fmt.Sprintf("snapshot epoch %d content %s: after %s Get()=%s, the model iterator is at %s (index %d)", s.sn, showAll(content), names(i+1), show(got), show(content[pos]), pos), "", true
				}
			}
		}
	}
	cnt, rate, node := nitro.VerifIterState(it)
	var np *skiplist.Node
	if pos >= 0 {
		np = node
	}
	return "", fmt.Sprintf("%d|%p|%d|%d", pos, np, cnt, rate), true
}

func c09Check(depth int) func(e *nEnv, jc *JobCtx, fail func(kind, msg string)) {
	return func(e *nEnv, jc *JobCtx, fail func(kind, msg string)) {
		ops := c09Ops(e.cfg)
		for _, s := range e.snaps {
			if s.closed {
				continue
			}
			seen := map[string]bool{}
			frontier := [][]int{{}}
			for d := 0; d < depth && len(frontier) > 0; d++ {
				var next [][]int
				for _, seq := range frontier {
					for oi := range ops {
						s2 := append(append([]int{}, seq...), oi)
						p, key, ok := itReplay(e, s, ops, s2)
						if !ok {
							continue
						}
						jc.Rep.Extra["iterator_sequences"]++
						if p != "" {
							fail("iterator-position", p)
						}
						if !seen[key] {
							seen[key] = true
							next = append(next, s2)
						}
					}
				}
				frontier = next
			}
			jc.Rep.Extra["iterator_states"] += int64(len(seen))
		}
	}
}

func init() {
	register(&propDef{ID: "C09",
		Jobs: func(tier string) []Job {
			hd, id := 4, 4
			if tier == "thorough" {
				hd, id = 5, 5
			}
			var cfgs []seqCfg
			for _, c := range []string{"default", "kv"} {
				cfgs = append(cfgs, seqCfg{nCfg: nCfg{cmp: c, writers: 2}, policy: "drain", depth: hd, maxSnaps: 3, init: "ab", check: c09Check(id)})
				cfgs = append(cfgs, seqCfg{nCfg: nCfg{cmp: c, writers: 2}, policy: "starve", depth: hd, maxSnaps: 3, init: "ab", check: c09Check(id)})
			}
			if tier == "thorough" {
				cfgs = append(cfgs, seqCfg{nCfg: nCfg{cmp: "rev", writers: 2}, policy: "drain", depth: hd, maxSnaps: 3, init: "ab", check: c09Check(id)})
				cfgs = append(cfgs, seqCfg{nCfg: nCfg{mm: true, cmp: "kv", writers: 2}, policy: "drain", depth: hd, maxSnaps: 3, init: "ab", check: c09Check(id)})
			}
			return seqJobs("C09", tier, cfgs)
		},
		Rule:  "at every state of the history exploration (all operation sequences up to the depth from a populated database with an open snapshot: deletes and re-inserts leave several physical versions per key), for every open snapshot, breadth-first over iterator op sequences {SeekFirst, Seek(below / each key / between / above), Next, Refresh, SetRefreshRate(1|2|0)} up to the depth with merging by (model position, cursor node, step counter, rate); position, Valid() and Get() bytes are compared with a model iterator after every call; non-trivial = distinct history states, iterator sequences are counted in counters.iterator_sequences",
		Notes: []string{"Next is only called on a valid iterator", "iterators do not mutate the database, so all sequences of one history run inside one execution"}})
}
