package main

// C12: backup never reports success for, or leaves behind, a silently partial backup.
// The real StoreToDisk runs over the in-memory file system, which logs every mutation.
//   crash images  : the file system after every prefix of the mutation log of a successful
//                   run (a dying process loses user-space buffers, not completed syscalls);
//                   LoadFromDisk must return an error or exactly the stored snapshot.
//   byte budgets  : writes start failing (disk full, partial write) after b bytes, for
//                   every b from 0 to the total written by the successful run;
//   k-th op fails : the k-th write / close / create / mkdir fails, for every k;
//                   whenever StoreToDisk returns nil the resulting image must restore exactly.

import (
	"fmt"

	"github.com/couchbase/nitro"
	vos "github.com/couchbase/nitro/zzverif/os"
	"github.com/couchbase/nitro/zzverif/vrt"
)

type storeRun struct {
	err   error
	img   *vos.MemFS
	log   []vos.Mutation
	bytes int
	ops   map[string]int
	inj   int
	verd  vrt.Verdict
	steps int
}

// runStore executes buildBackup in its own controlled execution with the given fault plan.
func runStore(c *cannedDB, storeConc, blockSize, budget int, faults []vos.Fault) *storeRun {
	sr := &storeRun{ops: map[string]int{}}
	r := vrt.Run(nil, nil, false, 2000000, func() {
		nitro.DiskBlockSize = blockSize
		fs := resetFS()
		fs.ByteBudget = budget
		fs.Faults = faults
		vrt.NoBranch(true)
		_, err := buildBackup(c, storeConc)
		sr.err = err
		sr.img = fs.Clone()
		sr.log = fs.Log
		sr.inj = fs.Injected
		for _, mu := range fs.Log {
			sr.ops[mu.Op]++
			if mu.Op == "write" {
				sr.bytes += len(mu.Data)
			}
		}
	})
	vos.FS = nil
	sr.verd = r.Verdict
	sr.steps = r.Steps
	return sr
}

func runC12(jc *JobCtx, ci, storeConc, blockSize int, mode string) {
	rep := jc.Rep
	c := cannedDBs[ci]
	base := runStore(&c, storeConc, blockSize, -1, nil)
	if base.verd.Kind != "" || base.err != nil {
		rep.Error = fmt.Sprintf("C12 setup: fault-free StoreToDisk failed: %v %s", base.err, firstLine(base.verd.Msg))
		return
	}
	if k, m, _, _ := loadOutcome(&c, base.img, 1, false); k != "" || m != "exact" {
		rep.violate(Viol{Kind: "restore-undamaged", Msg: "the fault-free backup does not restore exactly: " + k + " " + m, Site: "LoadFromDisk", Job: jc.Job.Name, Choices: []int{-1}})
		return
	}
	desc := fmt.Sprintf("backup %q store concurrency %d block size %d (%d mutations, %d bytes)", c.name, storeConc, blockSize, len(base.log), base.bytes)
	type plan struct {
		name   string
		prefix int // crash image after this many mutations (-1: not a crash plan)
		budget int
		faults []vos.Fault
	}
	var plans []plan
	switch mode {
	case "crash":
		for k := 0; k <= len(base.log); k++ {
			plans = append(plans, plan{name: fmt.Sprintf("process dies after %d of %d file-system mutations", k, len(base.log)), prefix: k, budget: -1})
		}
	case "budget":
		for b := 0; b <= base.bytes; b++ {
			plans = append(plans, plan{name: fmt.Sprintf("disk full after %d of %d bytes", b, base.bytes), prefix: -1, budget: b})
		}
	case "opfail":
		for _, kind := range []string{"write", "close", "create", "mkdir"} {
			n := base.ops[kind]
			if kind == "close" {
				n = 0
				for _, mu := range base.log {
					if mu.Op == "close" {
						n++
					}
				}
			}
			for k := 1; k <= n; k++ {
				plans = append(plans, plan{name: fmt.Sprintf("%s #%d fails", kind, k), prefix: -1, budget: -1, faults: []vos.Fault{{Kind: kind, K: k}}})
			}
		}
	}
	one := func(i int) {
		p := plans[i]
		rep.Executions++
		if p.prefix >= 0 {
			img := vos.Replay(base.log[:p.prefix])
			k, m, site, steps := loadOutcome(&c, img, 1, false)
			rep.Transitions += int64(steps)
			if k != "" {
				rep.violate(Viol{Kind: "crash-" + k, Msg: fmt.Sprintf("%s, %s, files left: %s: %s", desc, p.name, fsSummary(img), m), Site: site, Job: jc.Job.Name, Choices: []int{i}})
				rep.outcome("!crash-" + k)
			} else {
				rep.outcome("crash:" + firstWord(m))
			}
			return
		}
		sr := runStore(&c, storeConc, blockSize, p.budget, p.faults)
		rep.Transitions += int64(sr.steps)
		if sr.verd.Kind != "" {
			rep.violate(Viol{Kind: "store-" + sr.verd.Kind, Msg: fmt.Sprintf("%s, %s: StoreToDisk: %s", desc, p.name, firstLine(sr.verd.Msg)), Site: sr.verd.Site, Job: jc.Job.Name, Choices: []int{i}})
			return
		}
		if sr.err != nil {
			rep.outcome("store-error")
			return
		}
		// StoreToDisk reported success: the backup must restore exactly
		k, m, site, steps := loadOutcome(&c, sr.img, 1, false)
		rep.Transitions += int64(steps)
		if k != "" || m != "exact" {
			if k == "" {
				k = "unrestorable"
				site = "StoreToDisk"
			}
			rep.violate(Viol{Kind: "store-success-" + k, Msg: fmt.Sprintf("%s, %s (%d faults injected): StoreToDisk returned nil but LoadFromDisk of the result: %s; files: %s", desc, p.name, sr.inj, m, fsSummary(sr.img)), Site: site, Job: jc.Job.Name, Choices: []int{i}})
			rep.outcome("!store-success-" + k)
			return
		}
		if sr.inj > 0 {
			rep.outcome("store-ok-despite-fault")
		} else {
			rep.outcome("store-ok-no-fault-hit")
		}
	}
	if jc.Replay {
		if len(jc.ReplayChois) == 1 && jc.ReplayChois[0] >= 0 && jc.ReplayChois[0] < len(plans) {
			one(jc.ReplayChois[0])
		}
		return
	}
	for i := range plans {
		if i%16 == 0 && timeUp(jc) {
			rep.Exhaustive = false
			rep.CapHit = "deadline"
			break
		}
		one(i)
	}
	rep.Nodes = rep.Executions
	rep.Nontrivial = rep.Executions
	rep.Bound = "every " + mode + " point"
	if len(plans) > 0 {
		rep.sample(fmt.Sprintf("%s: %d %s plans, e.g. %q, %q", desc, len(plans), mode, plans[0].name, plans[len(plans)/2].name))
	}
}

func firstWord(s string) string {
	for i, c := range s {
		if c == ' ' || c == ':' {
			return s[:i]
		}
	}
	return s
}

func c12Jobs(tier string) []Job {
	var jobs []Job
	for ci, c := range cannedDBs {
		ci, c := ci, c
		for _, sc := range []int{1, 2} {
			for _, bs := range []int{512 * 1024, 8} {
				if tier != "thorough" && sc == 2 && bs == 8 && ci != 1 {
					continue
				}
				for _, mode := range []string{"crash", "budget", "opfail"} {
					sc, bs, mode := sc, bs, mode
					jobs = append(jobs, Job{Name: fmt.Sprintf("C12/%s/conc%d/block%d/%s", c.name, sc, bs, mode), Run: func(jc *JobCtx) { runC12(jc, ci, sc, bs, mode) }})
				}
			}
		}
	}
	return jobs
}

func init() {
	register(&propDef{ID: "C12", Jobs: c12Jobs, Level: "fault_enumeration",
		Rule:  "three database contents (incl. delta interleaving with a non-empty delta) x backup concurrency {1,2} x DiskBlockSize {512 KiB, 8 B}; crash images: the file system after every prefix of the mutation log of the real StoreToDisk into an empty directory, each fed to LoadFromDisk (must terminate and return an error or exactly the stored snapshot); fault plans: every byte budget 0..total (disk full with partial write) and every k-th write / close / create / mkdir failing; whenever StoreToDisk returns nil the resulting image must restore exactly; non-trivial = every crash point / fault plan",
		Notes: []string{"process death loses user-space buffers, not completed syscalls (nitro issues no fsync; power-loss reordering is not modelled)", "one fault per run"}})
}
