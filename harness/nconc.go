package main

// Concurrent nitro-level drivers for C01 (snapshot isolation under GC and writers), C06 (GC
// precision under racing closes and contended deletes), C10 (Visitor under concurrency) and
// C05 (backup with delta interleaving under snapshot churn). All start from a base history
// with a pinned old version, a key deleted and re-inserted across epochs and a chain
// S1 < S2 < S3 of open snapshots.

import (
	"fmt"
	"sort"
	"strings"

	"github.com/couchbase/nitro"
	vos "github.com/couchbase/nitro/zzverif/os"
	vruntime "github.com/couchbase/nitro/zzverif/runtime"
	"github.com/couchbase/nitro/zzverif/vrt"
)

type concDriver struct {
	name    string
	base    int // 0: baseHistory, 1: baseHistory2 (a middle snapshot without garbage)
	cfg     nCfg
	pre     func(e *nEnv, x *concCtx) // after the base history, before the threads start
	threads []func(e *nEnv, x *concCtx)
	// end is evaluated after the threads joined and the workers drained
	end func(e *nEnv, x *concCtx)
}

type concCtx struct {
	prop string
	res  []string
	fs   *vos.MemFS
}

func (e *nEnv) mPut(w int, k, v string, level int) {
	bs := e.cfg.itemBytes(k, v)
	e.levels[w] = level
	n := e.ws[w].Put2(bs)
	_, ok := e.m.Put(string(bs))
	if (n != nil) != ok {
		vrt.Fail("set-semantics", fmt.Sprintf("setup Put(%s%s) returned %v, model %v", k, v, n != nil, ok))
	}
}

func (e *nEnv) mDel(w int, k string) bool {
	bs := e.cfg.itemBytes(k, "1")
	got := e.ws[w].Delete(bs)
	_, ok := e.m.DeleteKey(string(bs))
	if got != ok {
		vrt.Fail("set-semantics", fmt.Sprintf("Delete(%s) returned %v, model %v", k, got, ok))
	}
	return got
}

func (e *nEnv) mSnap() *openSnap {
	s, err := e.db.NewSnapshot()
	if err != nil {
		vrt.Fail("set-semantics", err.Error())
	}
	sn, c := e.m.Snapshot()
	os := &openSnap{s: s, sn: sn, content: c}
	e.snaps = append(e.snaps, os)
	return os
}

func (e *nEnv) closeSnap(i int) {
	s := e.snaps[i]
	if !s.closed {
		s.closed = true
		s.s.Close()
	}
}

// baseHistory: a1,b1,c1 | S1 | delete b, re-insert b, insert d | S2 | delete a, delete b | S3
// versions afterwards: a1@1-3  b1@1-2  b1@2-3  c1@1-  d1@2-
func baseHistory(e *nEnv) {
	e.mPut(0, "a", "1", 1)
	e.mPut(0, "b", "1", 0)
	e.mPut(0, "c", "1", 1)
	e.mSnap()
	e.mDel(0, "b")
	e.mPut(0, "b", "1", 1)
	e.mPut(0, "d", "1", 0)
	e.mSnap()
	e.mDel(0, "a")
	e.mDel(0, "b")
	e.mSnap()
	vrt.WaitIdle()
}

// baseHistory2: a1,b1,c1 | S1 | insert d (no deletes: S2 carries no garbage) | S2 | delete a, delete b | S3
func baseHistory2(e *nEnv) {
	e.mPut(0, "a", "1", 1)
	e.mPut(0, "b", "1", 0)
	e.mPut(0, "c", "1", 1)
	e.mSnap()
	e.mPut(0, "d", "1", 0)
	e.mSnap()
	e.mDel(0, "a")
	e.mDel(0, "b")
	e.mSnap()
	vrt.WaitIdle()
}

// baseHistory3: a1,b1,c1 | S1 | delete b, re-insert b | S2 | insert d | S3
// S3 sees the newer version of b; the older one (dead in epoch 2) is collected once S1 and S2 are closed.
func baseHistory3(e *nEnv) {
	e.mPut(0, "a", "1", 0)
	e.mPut(0, "b", "1", 1)
	e.mPut(0, "c", "1", 0)
	e.mSnap()
	e.mDel(0, "b")
	e.mPut(0, "b", "1", 1)
	e.mSnap()
	e.mPut(0, "d", "1", 0)
	e.mSnap()
	vrt.WaitIdle()
}

// checkScan: a reader thread scans snapshot i and compares with its reference content.
func (e *nEnv) checkScan(i int, rate int) string {
	s := e.snaps[i]
	it := s.s.NewIterator()
	if it == nil {
		vrt.Fail("snapshot-isolation", fmt.Sprintf("NewIterator returned nil on open snapshot epoch %d", s.sn))
	}
	it.SetRefreshRate(rate)
	var got []string
	for it.SeekFirst(); it.Valid(); it.Next() {
		bs := it.Get()
		if e.ga != nil {
			e.touch(bs, "item returned by an open iterator")
		}
		got = append(got, string(bs))
		if len(got) > 50 {
			break
		}
	}
	it.Close()
	if fmt.Sprint(got) != fmt.Sprint(s.content) {
		vrt.Fail("snapshot-isolation", fmt.Sprintf("open snapshot epoch %d scans %s while other snapshots are closed / items written concurrently; at creation it held %s", s.sn, showAll(got), showAll(s.content)))
	}
	if c := s.s.Count(); c != int64(len(s.content)) {
		vrt.Fail("snapshot-isolation", fmt.Sprintf("open snapshot epoch %d Count()=%d, it holds %d items", s.sn, c, len(s.content)))
	}
	return showAll(got)
}

func concDrivers(prop string, tier string) []concDriver {
	var ds []concDriver
	modes := []nCfg{{cmp: "default", writers: 2}, {cmp: "default", writers: 2, mm: true}}
	if prop == "C01" {
		modes = append(modes, nCfg{cmp: "kv", writers: 2})
	}
	for _, cfg := range modes {
		cfg := cfg
		switch prop {
		case "C01":
			for _, rate := range []int{0, 1} {
				rate := rate
				ds = append(ds,
					concDriver{name: fmt.Sprintf("readS3-vs-closeS1S2/refresh%d", rate), cfg: cfg, threads: []func(e *nEnv, x *concCtx){
						func(e *nEnv, x *concCtx) { x.res[0] = e.checkScan(2, rate) },
						func(e *nEnv, x *concCtx) { e.closeSnap(0); e.closeSnap(1) },
					}},
					concDriver{name: fmt.Sprintf("readS2-vs-writer/refresh%d", rate), cfg: cfg, threads: []func(e *nEnv, x *concCtx){
						func(e *nEnv, x *concCtx) { x.res[0] = e.checkScan(1, rate) },
						func(e *nEnv, x *concCtx) { e.mDel(0, "c"); e.mPut(0, "bb", "1", 1); e.mDel(0, "bb") },
					}},
				)
			}
			for _, rate := range []int{0, 1} {
				rate := rate
				// the collector unlinks the dead older version of b while the reader's cursor may rest on it; the
				// newer version of b is visible to the reader
				ds = append(ds, concDriver{name: fmt.Sprintf("base3/readS3-vs-closeS1S2/refresh%d", rate), base: 2, cfg: cfg, threads: []func(e *nEnv, x *concCtx){
					func(e *nEnv, x *concCtx) { x.res[0] = e.checkScan(2, rate) },
					func(e *nEnv, x *concCtx) { e.closeSnap(0); e.closeSnap(1) },
				}})
			}
			ds = append(ds,
				concDriver{name: "readS1-vs-closeS3S2-writer", cfg: cfg, threads: []func(e *nEnv, x *concCtx){
					func(e *nEnv, x *concCtx) { x.res[0] = e.checkScan(0, 0) },
					func(e *nEnv, x *concCtx) { e.closeSnap(2); e.closeSnap(1) },
					func(e *nEnv, x *concCtx) { e.mDel(1, "c") },
				}},
				concDriver{name: "base2/readS1-vs-closeS2S3", base: 1, cfg: cfg, threads: []func(e *nEnv, x *concCtx){
					func(e *nEnv, x *concCtx) { x.res[0] = e.checkScan(0, 0) },
					func(e *nEnv, x *concCtx) { e.closeSnap(1); e.closeSnap(2) },
				}},
				concDriver{name: "base2/readS1-readS2-vs-closeS3-writer", base: 1, cfg: cfg, threads: []func(e *nEnv, x *concCtx){
					func(e *nEnv, x *concCtx) { x.res[0] = e.checkScan(0, 1); x.res[1] = e.checkScan(1, 0) },
					func(e *nEnv, x *concCtx) { e.closeSnap(2); e.mDel(1, "c") },
				}},
				concDriver{name: "readS2-readS3-vs-closeS1", cfg: cfg, threads: []func(e *nEnv, x *concCtx){
					func(e *nEnv, x *concCtx) { x.res[0] = e.checkScan(1, 1) },
					func(e *nEnv, x *concCtx) { x.res[1] = e.checkScan(2, 0) },
					func(e *nEnv, x *concCtx) { e.closeSnap(0) },
				}},
			)
		case "C06":
			ds = append(ds,
				concDriver{name: "closeS1-vs-closeS2", cfg: cfg, threads: []func(e *nEnv, x *concCtx){
					func(e *nEnv, x *concCtx) { e.closeSnap(0) },
					func(e *nEnv, x *concCtx) { e.closeSnap(1) },
				}},
				concDriver{name: "closeS1-closeS2-closeS3", cfg: cfg, threads: []func(e *nEnv, x *concCtx){
					func(e *nEnv, x *concCtx) { e.closeSnap(0) },
					func(e *nEnv, x *concCtx) { e.closeSnap(1) },
					func(e *nEnv, x *concCtx) { e.closeSnap(2) },
				}},
				concDriver{name: "base2/closeS2-vs-closeS3", base: 1, cfg: cfg, threads: []func(e *nEnv, x *concCtx){
					func(e *nEnv, x *concCtx) { e.closeSnap(1) },
					func(e *nEnv, x *concCtx) { e.closeSnap(2) },
				}},
				concDriver{name: "closeS2S1-vs-GC", cfg: cfg, threads: []func(e *nEnv, x *concCtx){
					func(e *nEnv, x *concCtx) { e.closeSnap(1); e.closeSnap(0) },
					func(e *nEnv, x *concCtx) { e.db.GC(); e.db.GC() },
				}},
				concDriver{name: "two-writers-delete-same-keys", cfg: cfg, threads: []func(e *nEnv, x *concCtx){
					func(e *nEnv, x *concCtx) {
						x.res[0] = fmt.Sprint(e.ws[0].Delete(e.cfg.itemBytes("c", "1")), e.ws[0].Delete(e.cfg.itemBytes("d", "1")))
					},
					func(e *nEnv, x *concCtx) {
						x.res[1] = fmt.Sprint(e.ws[1].Delete(e.cfg.itemBytes("c", "1")), e.ws[1].Delete(e.cfg.itemBytes("d", "1")))
					},
				}, end: func(e *nEnv, x *concCtx) {
					// exactly one winner per key
					if !(strings.Count(x.res[0]+x.res[1], "true") == 2) {
						vrt.Fail("gc", fmt.Sprintf("two writers deleting c and d concurrently: results %v (exactly one success per key expected)", x.res))
					}
					e.m.DeleteKey(string(e.cfg.itemBytes("c", "1")))
					e.m.DeleteKey(string(e.cfg.itemBytes("d", "1")))
				}},
			)
		case "C10":
			for _, sh := range []int{2, 3} {
				sh := sh
				ds = append(ds,
					concDriver{name: fmt.Sprintf("visitS2-shards%d-conc2-vs-closeS1", sh), cfg: cfg, threads: []func(e *nEnv, x *concCtx){
						func(e *nEnv, x *concCtx) {
							if p := visitOnce(e, e.snaps[1], sh, 2, 0); p != "" {
								vrt.Fail("visitor", p)
							}
						},
						func(e *nEnv, x *concCtx) { e.closeSnap(0) },
					}},
					concDriver{name: fmt.Sprintf("visitS3-shards%d-conc2-vs-closeS1S2-writer", sh), cfg: cfg, threads: []func(e *nEnv, x *concCtx){
						func(e *nEnv, x *concCtx) {
							nitro.VerifSetRefreshRate(e.db, 1)
							if p := visitOnce(e, e.snaps[2], sh, 2, 0); p != "" {
								vrt.Fail("visitor", p)
							}
						},
						func(e *nEnv, x *concCtx) { e.closeSnap(0); e.closeSnap(1); e.mPut(1, "bb", "1", 1) },
					}},
				)
			}
			ds = append(ds, concDriver{name: "visitS2-shards2-conc3-error", cfg: cfg, threads: []func(e *nEnv, x *concCtx){
				func(e *nEnv, x *concCtx) {
					if p := visitOnce(e, e.snaps[1], 2, 3, 2); p != "" {
						vrt.Fail("visitor", p)
					}
				},
				func(e *nEnv, x *concCtx) { e.mDel(1, "c") },
			}})
		}
	}
	if prop == "C05" {
		for _, mm := range []bool{false, true} {
			cfg := nCfg{cmp: "default", writers: 2, delta: true, mm: mm}
			for _, sc := range []int{1, 2} {
				sc := sc
				ds = append(ds, concDriver{name: fmt.Sprintf("delta-store-S2-conc%d-vs-churn", sc), cfg: cfg, pre: func(e *nEnv, x *concCtx) {
					// the reference StoreToDisk consumes
					if !e.snaps[1].s.Open() {
						vrt.Fail("backup", "Open failed on an open snapshot")
					}
				}, threads: []func(e *nEnv, x *concCtx){
					func(e *nEnv, x *concCtx) {
						s := e.snaps[1]
						err := e.db.StoreToDisk(backupDir, s.s, sc, nil)
						x.res[0] = fmt.Sprint(err)
					},
					func(e *nEnv, x *concCtx) {
						// close everything the GC needs, delete an item the stored snapshot sees, churn a snapshot
						e.closeSnap(0)
						e.closeSnap(1)
						e.closeSnap(2)
						e.mDel(1, "c")
						s4 := e.mSnap()
						s4.closed = true
						s4.s.Close()
					},
				}, end: func(e *nEnv, x *concCtx) {
					if x.res[0] != "<nil>" {
						return // the property speaks about successful backups
					}
					want := e.snaps[1].content
					vos.FS = x.fs
					r := loadBackup(e.cfg, e.ga, 1)
					if r.err != nil {
						vrt.Fail("backup", fmt.Sprintf("StoreToDisk (delta interleaving) succeeded while snapshots were churned but LoadFromDisk failed: %v; files: %s", r.err, fsSummary(x.fs)))
					}
					if fmt.Sprint(r.content) != fmt.Sprint(want) || r.count != int64(len(want)) {
						vrt.Fail("backup", fmt.Sprintf("backup with delta interleaving taken during snapshot churn restores %s (Count=%d) instead of the stored %s; files: %s", showAll(r.content), r.count, showAll(want), fsSummary(x.fs)))
					}
					r.snap.Close()
					r.snap = nil
					vrt.WaitIdle()
					r.db.Close()
				}})
			}
		}
	}
	return ds
}

func runConcDriver(jc *JobCtx, prop string, d concDriver, model vrt.CostModel, bound int) {
	var outcome string
	body := func() {
		outcome = ""
		e := newNEnv(d.cfg)
		x := &concCtx{prop: prop, res: make([]string, len(d.threads))}
		vruntime.CPUs = 2
		if prop == "C05" {
			x.fs = resetFS()
		}
		vrt.NoBranch(true)
		if d.base == 1 {
			baseHistory2(e)
		} else if d.base == 2 {
			baseHistory3(e)
		} else {
			baseHistory(e)
		}
		if d.pre != nil {
			d.pre(e, x)
		}
		var ths []*vrt.Thread
		for i, f := range d.threads {
			f := f
			ths = append(ths, vrt.GoNamed(fmt.Sprintf("T%d", i+1), func() { f(e, x) }))
		}
		vrt.NoBranch(false)
		vrt.Join(ths...)
		vrt.NoBranch(true)
		vrt.WaitIdle()
		if prop == "C06" || prop == "C01" {
			// safety half at quiescence: everything visible to a still open snapshot is present and scans right
			if p := e.checkOpenSnapshots(); p != "" {
				vrt.Fail("snapshot-isolation", p)
			}
		}
		if d.end != nil {
			d.end(e, x)
		}
		if prop == "C06" {
			// completeness half: one more snapshot, close everything, forced pass: exactly the live items remain
			e.mSnap()
			for i := range e.snaps {
				e.closeSnap(i)
			}
			vrt.WaitIdle()
			e.db.GC()
			vrt.WaitIdle()
			ph, pp := e.physDump()
			if pp != "" {
				vrt.Fail("structure", pp)
			}
			if p := e.checkGC(ph, true); p != "" {
				vrt.Fail("gc", p)
			}
		} else {
			for i := range e.snaps {
				e.closeSnap(i)
			}
			vrt.WaitIdle()
		}
		vos.FS = nil
		e.closing = true
		e.db.Close()
		var rs []string
		for _, r := range x.res {
			if r != "" {
				rs = append(rs, r)
			}
		}
		sort.Strings(rs)
		outcome = strings.Join(rs, " ")
	}
	jc.Sched(SchedOpts{Model: model, Bound: bound, Horizon: 2000000, Outcome: func(r *vrt.Result) string { return outcome }}, body, nil)
}

func concJobs(prop string, tier string) []Job {
	var jobs []Job
	for di, d := range concDrivers(prop, tier) {
		d := d
		delay := 2
		if tier == "thorough" {
			delay = 3
		}
		if prop == "C05" && tier != "thorough" && d.cfg.mm {
			continue // quick: Go-managed memory (user-managed memory during a delta backup is C04's S7 driver)
		}
		jobs = append(jobs, Job{Name: fmt.Sprintf("%s/conc/%s/%s/delay%d", prop, d.cfg, d.name, delay), Shards: 8, Run: func(jc *JobCtx) { runConcDriver(jc, prop, d, vrt.CostDelay, delay) }})
		if tier == "thorough" || (di == 0 && prop != "C10" && prop != "C05") {
			shards := 8
			if tier == "thorough" {
				shards = 16
			}
			jobs = append(jobs, Job{Name: fmt.Sprintf("%s/conc/%s/%s/preempt1", prop, d.cfg, d.name), Shards: shards, Run: func(jc *JobCtx) { runConcDriver(jc, prop, d, vrt.CostPreempt, 1) }})
		}
	}
	return jobs
}
