package main

// Helpers for checks that drive the skiplist package directly: instance creation in
// both memory modes, scripted levels, the structure walker (C14) and int items.

import (
	"fmt"
	"unsafe"

	"github.com/couchbase/nitro/skiplist"
	"github.com/couchbase/nitro/zzverif/rand"
	"github.com/couchbase/nitro/zzverif/vrt"
)

type slEnv struct {
	s     *skiplist.Skiplist
	ga    *GuardAlloc
	mm    bool
	items []unsafe.Pointer // keeps Go-allocated items reachable (arena memory is invisible to the GC)
	freed map[*skiplist.Node]bool
}

const slItemSize = 8

func newSlEnv(mm bool, destructor skiplist.BarrierSessionDestructor) *slEnv {
	e := &slEnv{mm: mm, freed: map[*skiplist.Node]bool{}}
	rand.NextLevel = func(int) int { return 0 }
	rand.ResetGlobal()
	cfg := skiplist.DefaultConfig()
	cfg.SetItemSizeFunc(func(unsafe.Pointer) int { return slItemSize })
	if mm {
		e.ga = gaFresh()
		cfg.UseMemoryMgmt = true
		cfg.Malloc = e.ga.Malloc
		cfg.Free = e.ga.Free
		if destructor == nil {
			destructor = func(unsafe.Pointer) {}
		}
		cfg.BarrierDestructor = destructor
		vrt.AccessHook = e.ga.Access
	}
	e.s = skiplist.NewWithConfig(cfg)
	return e
}

func (e *slEnv) item(k int) unsafe.Pointer {
	p := skiplist.NewIntKeyItem(k)
	e.items = append(e.items, p)
	return p
}

// levelFn returns a randFn that makes NewLevel draw exactly level l (capped by the list level + 1).
func levelFn(l int) func() float32 {
	n := l
	return func() float32 {
		if n > 0 {
			n--
			return 0
		}
		n = l
		return 1
	}
}

func (e *slEnv) insert(k, level int, buf *skiplist.ActionBuffer) (*skiplist.Node, bool) {
	return e.s.Insert2(e.item(k), skiplist.CompareInt, nil, buf, levelFn(level), &e.s.Stats)
}

func nodeKey(n *skiplist.Node) int { return skiplist.IntFromItem(n.Item()) }

// ---- structure walker ----

type walkInfo struct {
	linked0 []*skiplist.Node // every node reachable at level 0, marked or not
	live    []*skiplist.Node // unmarked at level 0
	marked0 int
	dist    [skiplist.MaxLevel + 1]int64
	mem     int64
}

// walkSkiplist checks the structural invariants of C14 on a quiescent list and returns what it measured.
// cmp orders items; sentinels are recognised by identity.
func walkSkiplist(s *skiplist.Skiplist, cmp skiplist.CompareFn) (wi walkInfo, problem string) {
	head, tail := skiplist.VerifHead(s), skiplist.VerifTail(s)
	const stepBound = 100000
	listLevel := skiplist.VerifLevel(s)
	var below map[*skiplist.Node]bool
	perLevel := make([]map[*skiplist.Node]bool, skiplist.MaxLevel+1)
	for l := 0; l <= skiplist.MaxLevel; l++ {
		set := map[*skiplist.Node]bool{}
		var prev *skiplist.Node
		steps := 0
		x, _ := skiplist.VerifNextRaw(head, l)
		for x != tail {
			if x == nil {
				return wi, fmt.Sprintf("level %d: chain from head ends in nil instead of the tail sentinel", l)
			}
			if x == head {
				return wi, fmt.Sprintf("level %d: chain returns to head (cycle)", l)
			}
			steps++
			if steps > stepBound {
				return wi, fmt.Sprintf("level %d: chain does not reach tail within %d steps (cycle)", l, stepBound)
			}
			if l > skiplist.VerifNodeLevel(x) {
				return wi, fmt.Sprintf("level %d: node of height %d is linked above its height", l, skiplist.VerifNodeLevel(x))
			}
			if l > listLevel {
				return wi, fmt.Sprintf("a node is linked at level %d but the list's level is %d: that level is not a level of the skiplist (searches never visit or maintain it)", l, listLevel)
			}
			nx, marked := skiplist.VerifNextRaw(x, l)
			if l == 0 {
				wi.linked0 = append(wi.linked0, x)
				wi.dist[skiplist.VerifNodeLevel(x)]++
				wi.mem += int64(s.Size(x))
				if marked {
					wi.marked0++
				}
			}
			if !marked {
				if set[x] {
					return wi, fmt.Sprintf("level %d: node visited twice (cycle)", l)
				}
				if prev != nil && cmp(prev.Item(), x.Item()) >= 0 {
					return wi, fmt.Sprintf("level %d: unmarked nodes out of order or duplicated", l)
				}
				set[x] = true
				prev = x
				if l == 0 {
					wi.live = append(wi.live, x)
				}
			}
			x = nx
		}
		if l > 0 {
			for n := range set {
				if !below[n] {
					// unmarked at this level but not an unmarked member of the level below
					return wi, fmt.Sprintf("level %d: an unmarked node is not part of the unmarked chain of level %d (not a sub-sequence)", l, l-1)
				}
			}
		}
		perLevel[l] = set
		below = set
	}
	for _, n := range wi.live {
		for l := 1; l <= skiplist.VerifNodeLevel(n); l++ {
			if !perLevel[l][n] {
				return wi, fmt.Sprintf("live node of height %d is not linked at level %d", skiplist.VerifNodeLevel(n), l)
			}
		}
	}
	return wi, ""
}

// reconcileStats compares the list's statistics with what the walk measured.
func reconcileStats(s *skiplist.Skiplist, wi *walkInfo) string {
	st := s.GetStats()
	if st.NodeCount != len(wi.linked0) {
		return fmt.Sprintf("NodeCount=%d but %d nodes are linked at level 0", st.NodeCount, len(wi.linked0))
	}
	for h := 0; h <= skiplist.MaxLevel; h++ {
		if st.NodeDistribution[h] != wi.dist[h] {
			return fmt.Sprintf("NodeDistribution[%d]=%d but the walk finds %d nodes of that height", h, st.NodeDistribution[h], wi.dist[h])
		}
	}
	if st.SoftDeletes != int64(wi.marked0) {
		return fmt.Sprintf("SoftDeletes=%d but %d marked nodes are still linked at level 0", st.SoftDeletes, wi.marked0)
	}
	if st.Memory != wi.mem {
		return fmt.Sprintf("Memory=%d but linked nodes account for %d bytes", st.Memory, wi.mem)
	}
	if s.MemoryInUse() != wi.mem {
		return fmt.Sprintf("MemoryInUse()=%d but linked nodes account for %d bytes", s.MemoryInUse(), wi.mem)
	}
	return ""
}
