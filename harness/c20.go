package main

// C20: node table and node list behave as their sequential models.
// Explicit-state search: breadth-first over operation sequences, successor = replay of the
// shortest path on a fresh instance plus one operation (live objects cannot be cloned),
// state key = canonical dump of the implementation's private state + model state; the
// search ends when no new state appears. A depth-bounded enumeration without merging
// cross-checks the merging.

import (
	"bytes"
	"fmt"
	"hash/crc32"
	"sort"
	"strings"
	"unsafe"

	"github.com/couchbase/nitro"
	"github.com/couchbase/nitro/nodetable"
	"github.com/couchbase/nitro/skiplist"
)

type ntObj struct {
	key []byte
	id  string
}

var ntKeys = [][]byte{[]byte("k1"), []byte("k2"), []byte("k3")}
var ntObjs [3][2]*ntObj

func init() {
	for k := range ntKeys {
		for p := 0; p < 2; p++ {
			ntObjs[k][p] = &ntObj{key: ntKeys[k], id: fmt.Sprintf("k%dp%d", k+1, p+1)}
		}
	}
}

func ntKeyEqual(p unsafe.Pointer, k []byte) bool { return bytes.Equal((*ntObj)(p).key, k) }

var ntHashes = map[string]nodetable.HashFn{
	"const": func([]byte) uint32 { return 7 },
	"mod2":  func(k []byte) uint32 { return uint32(k[1]) % 2 },
	"crc32": func(k []byte) uint32 { return crc32.ChecksumIEEE(k) },
}

// ops: 0..5 Update(k,p), 6..8 Get(k), 9..11 Remove(k)
const ntNumOps = 12

func ntOpName(op int) string {
	switch {
	case op < 6:
		return fmt.Sprintf("Update(k%d,p%d)", op/2+1, op%2+1)
	case op < 9:
		return fmt.Sprintf("Get(k%d)", op-6+1)
	default:
		return fmt.Sprintf("Remove(k%d)", op-9+1)
	}
}

type ntModel [3]int // 0 absent, 1/2 pointer index+1

func (m ntModel) count() int {
	n := 0
	for _, v := range m {
		if v != 0 {
			n++
		}
	}
	return n
}

func ptrName(p unsafe.Pointer) string {
	if p == nil {
		return "nil"
	}
	for k := range ntObjs {
		for i := range ntObjs[k] {
			if unsafe.Pointer(ntObjs[k][i]) == p {
				return ntObjs[k][i].id
			}
		}
	}
	return fmt.Sprintf("?%x", uintptr(p))
}

// ntApply performs op on both the table and the model and compares every observable.
func ntApply(nt *nodetable.NodeTable, m *ntModel, op int) string {
	switch {
	case op < 6:
		k, p := op/2, op%2
		upd, old := nt.Update(ntKeys[k], unsafe.Pointer(ntObjs[k][p]))
		wantUpd := m[k] != 0
		var wantOld unsafe.Pointer
		if wantUpd {
			wantOld = unsafe.Pointer(ntObjs[k][m[k]-1])
		}
		m[k] = p + 1
		if upd != wantUpd || old != wantOld {
			return fmt.Sprintf("%s returned (%v,%s), model says (%v,%s)", ntOpName(op), upd, ptrName(old), wantUpd, ptrName(wantOld))
		}
	case op < 9:
		k := op - 6
		got := nt.Get(ntKeys[k])
		var want unsafe.Pointer
		if m[k] != 0 {
			want = unsafe.Pointer(ntObjs[k][m[k]-1])
		}
		if got != want {
			return fmt.Sprintf("%s returned %s, model says %s", ntOpName(op), ptrName(got), ptrName(want))
		}
	default:
		k := op - 9
		ok, got := nt.Remove(ntKeys[k])
		wantOk := m[k] != 0
		var want unsafe.Pointer
		if wantOk {
			want = unsafe.Pointer(ntObjs[k][m[k]-1])
		}
		m[k] = 0
		if ok != wantOk || got != want {
			return fmt.Sprintf("%s returned (%v,%s), model says (%v,%s)", ntOpName(op), ok, ptrName(got), wantOk, ptrName(want))
		}
	}
	if int(nt.ItemsCount()) != m.count() {
		return fmt.Sprintf("after %s ItemsCount()=%d, model has %d keys", ntOpName(op), nt.ItemsCount(), m.count())
	}
	if nt.MemoryInUse() != int64(42*m.count()) {
		return fmt.Sprintf("after %s MemoryInUse()=%d, expected 42*%d", ntOpName(op), nt.MemoryInUse(), m.count())
	}
	// every key must be retrievable with its latest pointer (read-only probe of all keys)
	for k := range ntKeys {
		got := nt.Get(ntKeys[k])
		var want unsafe.Pointer
		if m[k] != 0 {
			want = unsafe.Pointer(ntObjs[k][m[k]-1])
		}
		if got != want {
			return fmt.Sprintf("after %s Get(k%d)=%s, model says %s", ntOpName(op), k+1, ptrName(got), ptrName(want))
		}
	}
	return ""
}

func ntSeqName(seq []int) string {
	var s []string
	for _, o := range seq {
		s = append(s, ntOpName(o))
	}
	return strings.Join(s, " ")
}

// ntReplay runs seq on a fresh table; returns the first discrepancy, the final state key.
func ntReplay(hash nodetable.HashFn, seq []int) (problem string, key string) {
	nt := nodetable.New(hash, ntKeyEqual)
	defer nt.Close()
	defer func() {
		if r := recover(); r != nil {
			problem = fmt.Sprintf("panic: %v (sequence: %s)", r, ntSeqName(seq))
		}
	}()
	var m ntModel
	for i, op := range seq {
		if p := ntApply(nt, &m, op); p != "" {
			return fmt.Sprintf("%s (step %d of: %s)", p, i+1, ntSeqName(seq)), ""
		}
	}
	dump := nodetable.VerifDump(nt)
	// canonical pointer names instead of addresses
	for k := range ntObjs {
		for i := range ntObjs[k] {
			dump = strings.ReplaceAll(dump, fmt.Sprintf("%x", uintptr(unsafe.Pointer(ntObjs[k][i]))), ntObjs[k][i].id)
		}
	}
	return "", fmt.Sprintf("%v|%s", m, dump)
}

func runNtBFS(jc *JobCtx, hname string) {
	hash := ntHashes[hname]
	rep := jc.Rep
	if jc.Replay {
		if p, _ := ntReplay(hash, jc.ReplayChois); p != "" {
			rep.violate(Viol{Kind: "nodetable-model", Msg: p, Site: "nodetable", Job: jc.Job.Name, Choices: jc.ReplayChois})
		}
		rep.Executions++
		return
	}
	seen := map[string]bool{}
	_, k0 := ntReplay(hash, nil)
	seen[k0] = true
	frontier := [][]int{{}}
	maxDepth := 0
	for len(frontier) > 0 {
		var next [][]int
		for _, seq := range frontier {
			for op := 0; op < ntNumOps; op++ {
				s2 := append(append([]int{}, seq...), op)
				p, key := ntReplay(hash, s2)
				rep.Executions++
				rep.Transitions += int64(len(s2))
				if p != "" {
					rep.violate(Viol{Kind: "nodetable-model", Msg: p, Site: "nodetable", Job: jc.Job.Name, Choices: s2})
					continue
				}
				if !seen[key] {
					seen[key] = true
					next = append(next, s2)
					if len(s2) > maxDepth {
						maxDepth = len(s2)
					}
					rep.sample(fmt.Sprintf("hash=%s new state after [%s]: %s", hname, ntSeqName(s2), key))
				}
			}
		}
		frontier = next
	}
	rep.Nodes += int64(len(seen))
	rep.Nontrivial += int64(len(seen) - 1)
	rep.Extra["bfs_states_"+hname] = int64(len(seen))
	rep.Extra["bfs_max_depth_"+hname] = int64(maxDepth)
	rep.Bound = "closure"
	rep.outcome(fmt.Sprintf("closed:%s:%d states", hname, len(seen)))
}

func runNtDepth(jc *JobCtx, hname string, depth int, first int) {
	hash := ntHashes[hname]
	rep := jc.Rep
	if jc.Replay {
		if p, _ := ntReplay(hash, jc.ReplayChois); p != "" {
			rep.violate(Viol{Kind: "nodetable-model", Msg: p, Site: "nodetable", Job: jc.Job.Name, Choices: jc.ReplayChois})
		}
		rep.Executions++
		return
	}
	// all sequences of exactly `depth` operations starting with `first`, no state merging;
	// one table per sequence prefix is rebuilt by replay
	finals := map[string]bool{}
	seq := make([]int, 0, depth)
	var rec func()
	rec = func() {
		if len(seq) == depth {
			p, key := ntReplay(hash, seq)
			rep.Executions++
			rep.Transitions += int64(depth)
			if p != "" {
				rep.violate(Viol{Kind: "nodetable-model", Msg: p, Site: "nodetable", Job: jc.Job.Name, Choices: append([]int{}, seq...)})
			} else {
				finals[key] = true
			}
			return
		}
		for op := 0; op < ntNumOps; op++ {
			seq = append(seq, op)
			rec()
			seq = seq[:len(seq)-1]
		}
	}
	seq = append(seq, first)
	rec()
	rep.Nodes += int64(len(finals))
	rep.Nontrivial += int64(len(finals))
	rep.Bound = fmt.Sprintf("depth=%d", depth)
	rep.outcome(fmt.Sprintf("%s: %d distinct final states", hname, len(finals)))
	rep.sample(fmt.Sprintf("hash=%s depth=%d first=%s", hname, depth, ntOpName(first)))
}

// ---- node list ----

var nlDB *nitro.Nitro
var nlNodes [3]*skiplist.Node
var nlKeys = []string{"a", "a", "b"} // two nodes share a key: Remove takes the first one in list order

func nlSetup() {
	if nlDB != nil {
		return
	}
	nlDB = nitro.New()
	sl := skiplist.New()
	for i := range nlNodes {
		n := sl.NewNode(0)
		n.SetItem(unsafe.Pointer(nitro.VerifNewItem(nlDB, []byte(nlKeys[i]))))
		nlNodes[i] = n
	}
}

// node list ops: 0..2 Add(node i) (enabled only if not in the list), 3..4 Remove("a"|"b"), 5 Remove("zz")
func nlReplay(seq []int) (problem string, key string, enabled []int) {
	defer func() {
		if r := recover(); r != nil {
			problem = fmt.Sprintf("panic: %v (sequence %v)", r, seq)
		}
	}()
	nlSetup()
	for _, n := range nlNodes {
		n.SetLink(nil)
	}
	l := nitro.NewNodeList(nil)
	var model []int
	check := func(step string) string {
		var want []string
		for _, i := range model {
			want = append(want, nlKeys[i])
		}
		var got []string
		for _, k := range l.Keys() {
			got = append(got, string(k))
		}
		if fmt.Sprint(got) != fmt.Sprint(want) {
			return fmt.Sprintf("after %s Keys()=%v, model list %v", step, got, want)
		}
		var wh *skiplist.Node
		if len(model) > 0 {
			wh = nlNodes[model[0]]
		}
		if l.Head() != wh {
			return fmt.Sprintf("after %s Head() is not the model's first node", step)
		}
		return ""
	}
	for _, op := range seq {
		step := ""
		if op < 3 {
			step = fmt.Sprintf("Add(n%d)", op)
			l.Add(nlNodes[op])
			model = append([]int{op}, model...)
		} else {
			k := []string{"a", "b", "zz"}[op-3]
			step = fmt.Sprintf("Remove(%s)", k)
			got := l.Remove([]byte(k))
			var want *skiplist.Node
			for i, ni := range model {
				if nlKeys[ni] == k {
					want = nlNodes[ni]
					model = append(append([]int{}, model[:i]...), model[i+1:]...)
					break
				}
			}
			if got != want {
				return fmt.Sprintf("%s returned the wrong node (seq %v)", step, seq), "", nil
			}
		}
		if p := check(step); p != "" {
			return p + fmt.Sprintf(" (seq %v)", seq), "", nil
		}
	}
	in := map[int]bool{}
	for _, i := range model {
		in[i] = true
	}
	for i := 0; i < 3; i++ {
		if !in[i] {
			enabled = append(enabled, i)
		}
	}
	enabled = append(enabled, 3, 4, 5)
	return "", fmt.Sprint(model), enabled
}

func runNodeList(jc *JobCtx) {
	rep := jc.Rep
	if jc.Replay {
		if p, _, _ := nlReplay(jc.ReplayChois); p != "" {
			rep.violate(Viol{Kind: "nodelist-model", Msg: p, Site: "NodeList", Job: jc.Job.Name, Choices: jc.ReplayChois})
		}
		rep.Executions++
		return
	}
	seen := map[string]bool{"[]": true}
	frontier := [][]int{{}}
	for len(frontier) > 0 {
		var next [][]int
		for _, seq := range frontier {
			_, _, en := nlReplay(seq)
			for _, op := range en {
				s2 := append(append([]int{}, seq...), op)
				p, key, _ := nlReplay(s2)
				rep.Executions++
				rep.Transitions += int64(len(s2))
				if p != "" {
					rep.violate(Viol{Kind: "nodelist-model", Msg: p, Site: "NodeList", Job: jc.Job.Name, Choices: s2})
					continue
				}
				if !seen[key] {
					seen[key] = true
					next = append(next, s2)
				}
			}
		}
		frontier = next
	}
	var ks []string
	for k := range seen {
		ks = append(ks, k)
	}
	sort.Strings(ks)
	rep.Nodes += int64(len(seen))
	rep.Nontrivial += int64(len(seen) - 1)
	rep.Bound = "closure"
	rep.outcome(fmt.Sprintf("nodelist closed: %d states", len(seen)))
	rep.sample("nodelist states: " + strings.Join(ks, " "))
}

func c20Jobs(tier string) []Job {
	var jobs []Job
	depth := 5
	if tier == "thorough" {
		depth = 7
	}
	for _, h := range []string{"const", "mod2", "crc32"} {
		h := h
		jobs = append(jobs, Job{Name: "C20/nodetable/bfs/" + h, Run: func(jc *JobCtx) { runNtBFS(jc, h) }})
		for first := 0; first < ntNumOps; first++ {
			first := first
			jobs = append(jobs, Job{Name: fmt.Sprintf("C20/nodetable/depth%d/%s/first=%d", depth, h, first), Run: func(jc *JobCtx) { runNtDepth(jc, h, depth, first) }})
		}
	}
	jobs = append(jobs, Job{Name: "C20/nodelist/bfs", Run: runNodeList})
	return jobs
}

func init() {
	register(&propDef{ID: "C20", Jobs: c20Jobs,
		Rule:  "explicit-state BFS over {Update(k,p), Get(k), Remove(k)} for 3 keys x 2 pointers with constant, 2-bucket and crc32 hash until no new state (key = private table state + model), plus every operation sequence of depth 5 (quick) / 7 (thorough) without merging; node list: BFS over {Add, Remove} on 3 nodes (two with equal keys) to closure; every return value, ItemsCount, MemoryInUse and a Get of every key is compared with a map/list model after every step; non-trivial = distinct non-initial states reached",
		Notes: []string{"NodeList.Add is only called with a node that is not already in the list (adding a linked node is outside its contract)"}})
}
