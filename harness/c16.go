package main

// C16 (access barrier safety) and C17 (access barrier liveness): the barrier of
// a user-managed skiplist driven directly by 2-3 harness threads executing small
// programs over {Acquire, Release, FlushSession}; all schedules within the
// preemption bound; the free queue is itself a skiplist, so its atomic steps are
// scheduling points too.

import (
	"fmt"
	"strings"
	"unsafe"

	"github.com/couchbase/nitro/skiplist"
	"github.com/couchbase/nitro/zzverif/rand"
	"github.com/couchbase/nitro/zzverif/vrt"
)

type barTok struct {
	bs     *skiplist.BarrierSession
	acqRet int // logical time at which Acquire returned
	relInv int // logical time at which Release was invoked (0 = not yet)
	thread int
}

type barFlush struct {
	inv, ret int
	lockPos  int // position in the order in which flushes took the barrier mutex (-1 = not yet)
	destruct int // number of destructor calls seen
	dtime    int
	ref      *int
}

type barState struct {
	toks      []*barTok
	flushes   []*barFlush
	lockOrder []int // flush ids in mutex order
	dOrder    []int // flush ids in destructor order
	curFlush  map[int]int
	destroyed map[*skiplist.BarrierSession]bool
	viol      string
}

// barrier programs: A acquire, R release (most recent token of the thread), F flush
var barPrograms = []string{"AR", "F", "AFR", "AARR", "FF", "ARAR", "FAR", "ARF", "AFRF"}

type barDriver struct {
	progs []string
	held  bool // setup leaves one closed-but-held session (main releases it at the end)
	fine  bool // plain stores (objectRef, seqno, freeSeqno, counters) are scheduling points too
}

func (d barDriver) name() string {
	h := ""
	if d.held {
		h = "+held"
	}
	if d.fine {
		h += "+fine"
	}
	return strings.Join(d.progs, "|") + h
}

func barDrivers(tier string) []barDriver {
	var out []barDriver
	count := func(ps []string) (ops, fl int) {
		for _, p := range ps {
			ops += len(p)
			fl += strings.Count(p, "F")
		}
		return
	}
	maxOps2, maxOps3 := 6, 5
	if tier == "thorough" {
		maxOps2, maxOps3 = 8, 7
	}
	for i := 0; i < len(barPrograms); i++ {
		for j := i; j < len(barPrograms); j++ {
			ps := []string{barPrograms[i], barPrograms[j]}
			ops, fl := count(ps)
			if fl == 0 || fl > 3 || ops > maxOps2 {
				continue
			}
			out = append(out, barDriver{progs: ps})
			if ops <= 5 {
				out = append(out, barDriver{progs: ps, fine: true})
			}
			if fl <= 2 && ops <= maxOps2-1 {
				out = append(out, barDriver{progs: ps, held: true})
			}
			// the same two programs started in the opposite order (who runs first under the default scheduler)
			if i != j {
				out = append(out, barDriver{progs: []string{barPrograms[j], barPrograms[i]}})
			}
		}
	}
	for i := 0; i < len(barPrograms); i++ {
		for j := i; j < len(barPrograms); j++ {
			for k := j; k < len(barPrograms); k++ {
				ps := []string{barPrograms[i], barPrograms[j], barPrograms[k]}
				ops, fl := count(ps)
				if fl == 0 || fl > 3 || ops > maxOps3 {
					continue
				}
				out = append(out, barDriver{progs: ps})
			}
		}
	}
	return out
}

func barrierJobs(prop string) func(tier string) []Job {
	return func(tier string) []Job {
		var jobs []Job
		for _, d := range barDrivers(tier) {
			d := d
			bound := 2
			if tier == "thorough" && len(d.progs) == 2 {
				bound = 3
			}
			j := Job{Name: fmt.Sprintf("%s/barrier/%s/c%d", prop, d.name(), bound), Shards: 1}
			if tier == "thorough" {
				j.Shards = 4
			}
			j.Run = func(jc *JobCtx) { runBarrier(jc, prop, d, bound) }
			jobs = append(jobs, j)
		}
		return jobs
	}
}

func runBarrier(jc *JobCtx, prop string, d barDriver, bound int) {
	var st *barState
	var ab *skiplist.AccessBarrier
	var outcome string
	body := func() {
		st = &barState{curFlush: map[int]int{}, destroyed: map[*skiplist.BarrierSession]bool{}}
		outcome = ""
		ga := gaFresh()
		rand.NextLevel = func(int) int { return 0 }
		rand.ResetGlobal()
		cfg := skiplist.DefaultConfig()
		cfg.UseMemoryMgmt = true
		cfg.Malloc = ga.Malloc
		cfg.Free = ga.Free
		cfg.BarrierDestructor = func(ref unsafe.Pointer) {
			// a real destructor synchronises (nitro's sends on a channel): the callback is a scheduling point
			vrt.Fence()
			now := vrt.Now()
			fid := -1
			for i, f := range st.flushes {
				if unsafe.Pointer(f.ref) == ref {
					fid = i
				}
			}
			if fid < 0 {
				vrt.Fail("barrier-safety", "destructor called with an object that was never flushed")
				return
			}
			f := st.flushes[fid]
			f.destruct++
			f.dtime = now
			if f.destruct > 1 {
				vrt.Fail("barrier-safety", fmt.Sprintf("destructor for flush #%d ran twice", fid))
			}
			// every accessor whose Acquire completed before this flush was called must have called Release
			for k, t := range st.toks {
				if t.acqRet != 0 && t.acqRet < f.inv && t.relInv == 0 {
					vrt.Fail("barrier-safety", fmt.Sprintf("destructor of flush #%d ran while accessor #%d (thread %d, acquired at %d before the flush at %d) has not released", fid, k, t.thread, t.acqRet, f.inv))
				}
			}
			// destructors follow the order in which flushes took the barrier mutex
			pos := len(st.dOrder)
			st.dOrder = append(st.dOrder, fid)
			if pos >= len(st.lockOrder) || st.lockOrder[pos] != fid {
				vrt.Fail("barrier-safety", fmt.Sprintf("destructor order %v is not the flush order %v", st.dOrder, st.lockOrder))
			}
			// remember which sessions are gone
			for _, t := range st.toks {
				if r, _ := skiplist.VerifSessionRef(t.bs); r == ref {
					st.destroyed[t.bs] = true
				}
			}
		}
		s := skiplist.NewWithConfig(cfg)
		ab = s.GetAccesBarrier()
		vrt.OpHook = func(t *vrt.Thread, op vrt.Op) {
			if op.Kind == vrt.OpLock {
				if fid, ok := st.curFlush[t.ID]; ok && st.flushes[fid].lockPos < 0 {
					st.flushes[fid].lockPos = len(st.lockOrder)
					st.lockOrder = append(st.lockOrder, fid)
				}
			}
		}
		acquire := func(tid int) *barTok {
			bs := ab.Acquire()
			t := &barTok{bs: bs, thread: tid}
			t.acqRet = vrt.Fence()
			st.toks = append(st.toks, t)
			if st.destroyed[bs] {
				vrt.Fail("barrier-safety", fmt.Sprintf("Acquire (thread %d) returned a session whose destructor already ran", tid))
			}
			return t
		}
		release := func(t *barTok) {
			t.relInv = vrt.Fence()
			ab.Release(t.bs)
		}
		flush := func(tid int) {
			f := &barFlush{lockPos: -1, ref: new(int)}
			fid := len(st.flushes)
			st.flushes = append(st.flushes, f)
			f.inv = vrt.Fence()
			st.curFlush[tid] = fid
			ab.FlushSession(unsafe.Pointer(f.ref))
			delete(st.curFlush, tid)
			f.ret = vrt.Fence()
		}
		vrt.NoBranch(true)
		var heldTok *barTok
		if d.held {
			heldTok = acquire(0)
			flush(0)
		}
		var ths []*vrt.Thread
		for i, prog := range d.progs {
			prog := prog
			tid := i + 1
			ths = append(ths, vrt.GoNamed(fmt.Sprintf("T%d", tid), func() {
				var stack []*barTok
				for _, op := range prog {
					switch op {
					case 'A':
						stack = append(stack, acquire(tid))
					case 'R':
						t := stack[len(stack)-1]
						stack = stack[:len(stack)-1]
						release(t)
					case 'F':
						flush(tid)
					}
				}
			}))
		}
		vrt.FineMode = d.fine
		vrt.NoBranch(false)
		vrt.Join(ths...)
		vrt.NoBranch(true)
		vrt.FineMode = false
		if heldTok != nil {
			release(heldTok)
		}
		// quiescence: every token released, no call in progress
		nd := 0
		for _, f := range st.flushes {
			nd += f.destruct
		}
		queued := skiplist.VerifBarrierQueued(ab)
		outcome = fmt.Sprintf("destructed=%d/%d queued=%d order=%v", nd, len(st.flushes), queued, st.dOrder)
		if prop == "C17" {
			if nd != len(st.flushes) || queued != 0 {
				vrt.Fail("barrier-liveness", fmt.Sprintf("at quiescence %d of %d flushed objects were destructed, %d terminated sessions still queued (flush order %v, destructed %v)", nd, len(st.flushes), queued, st.lockOrder, st.dOrder))
			}
			_, _, q, _ := ab.GetStats()
			if q != 0 {
				vrt.Fail("barrier-liveness", fmt.Sprintf("GetStats reports %d queued sessions at quiescence", q))
			}
		}
	}
	jc.Sched(SchedOpts{Model: vrt.CostPreempt, Bound: bound, Outcome: func(r *vrt.Result) string { return outcome }}, body, nil)
}

func init() {
	register(&propDef{ID: "C16", Jobs: barrierJobs("C16"),
		Rule:  "every schedule (preemption-bounded, iterative context bounding) of closed 2-3 thread drivers over {Acquire,Release,FlushSession} on the real AccessBarrier; non-trivial = schedule deviating from the default one with at least one context switch, distinct by observation hash",
		Notes: []string{"Go atomics are sequentially consistent; plain accesses are atomic with the step containing them", "'before that flush' is read as before the FlushSession call"}})
	register(&propDef{ID: "C17", Jobs: func(tier string) []Job {
		return append(barrierJobs("C17")(tier), smrJobs("C17")(tier)...)
	},
		Rule:  "same drivers and schedules as C16; oracle evaluated at quiescence (all tokens released, all calls returned): destructor calls == FlushSession calls and nothing queued; nitro level: the C04 concurrent drivers (user-managed memory), once the database is idle the allocator must hold exactly the linked nodes (no unlinked node waiting for a future flush)",
		Notes: []string{"Go atomics are sequentially consistent; plain accesses are atomic with the step containing them"}})
}
