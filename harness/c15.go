package main

// C15: skiplist iterators stay ordered and complete under concurrent modification.
// Stable items {10,30,50} are never touched; volatile keys {20,25,40} are inserted and
// deleted by 1-2 mutator threads while an iterator thread scans. Only definite
// violations are flagged, using the call/return intervals of the mutators.

import (
	"fmt"
	"strings"

	"github.com/couchbase/nitro/skiplist"
	"github.com/couchbase/nitro/zzverif/vrt"
)

type itDriver struct {
	start    int    // 0 = SeekFirst, else Seek(start)
	mode     string // plain, int1, int2, refresh, pause
	mutators [][]slOp
	mm       bool
}

func (d itDriver) name() string {
	var ts []string
	for _, t := range d.mutators {
		var os []string
		for _, o := range t {
			os = append(os, o.String())
		}
		ts = append(ts, strings.Join(os, ","))
	}
	st := "first"
	if d.start != 0 {
		st = fmt.Sprintf("seek%d", d.start)
	}
	mode := "go"
	if d.mm {
		mode = "mm"
	}
	return fmt.Sprintf("%s/%s/%s/%s", mode, st, d.mode, strings.Join(ts, "|"))
}

var itInit = []slInit{{10, 0}, {20, 1}, {30, 0}, {40, 1}, {50, 0}}
var itStable = []int{10, 30, 50}

func itDrivers(tier string) []itDriver {
	D := func(k int) slOp { return slOp{'D', k, 0} }
	I := func(k, l int) slOp { return slOp{'I', k, l} }
	muts := [][][]slOp{
		{{D(20), I(20, 1)}},
		{{D(20)}},
		{{D(40)}},
		{{I(25, 1)}},
		{{D(20), D(40)}},
		{{I(25, 0), D(25)}},
		{{D(20)}, {I(25, 1)}},
		{{D(20)}, {D(20)}},
		{{D(20), I(20, 0)}, {D(40)}},
		{{D(40)}, {I(25, 0), D(20)}},
	}
	starts := []int{0, 20, 25}
	modes := []string{"plain", "int1", "int2", "refresh", "pause"}
	if tier == "thorough" {
		starts = []int{0, 5, 10, 20, 25, 30, 55}
	}
	var out []itDriver
	for _, s := range starts {
		for _, m := range modes {
			for mi, mu := range muts {
				if tier != "thorough" && len(mu) == 2 && (m == "int2" || m == "pause" || s == 25) {
					continue
				}
				out = append(out, itDriver{start: s, mode: m, mutators: mu})
				if (tier == "thorough" || mi < 2) && (m == "int1" || m == "pause") {
					out = append(out, itDriver{start: s, mode: m, mutators: mu, mm: true})
				}
			}
		}
	}
	if tier != "thorough" {
		for _, s := range []int{5, 10, 30, 55} {
			out = append(out, itDriver{start: s, mode: "plain", mutators: muts[0]})
			out = append(out, itDriver{start: s, mode: "int1", mutators: muts[4]})
		}
	}
	return out
}

func c15Jobs(tier string) []Job {
	var jobs []Job
	for _, d := range itDrivers(tier) {
		d := d
		bound := 2
		if tier == "thorough" && len(d.mutators) == 1 {
			bound = 3
		}
		j := Job{Name: fmt.Sprintf("C15/%s/c%d", d.name(), bound)}
		if tier == "thorough" {
			j.Shards = 4
		}
		j.Run = func(jc *JobCtx) { runItDriver(jc, d, bound) }
		jobs = append(jobs, j)
	}
	return jobs
}

type itObs struct {
	key    int
	t      int
	marked bool // the node was already marked deleted (but still linked) when it was returned
}

func runItDriver(jc *JobCtx, d itDriver, bound int) {
	var outcome string
	body := func() {
		outcome = ""
		e := newSlEnv(d.mm, nil)
		s := e.s
		vrt.NoBranch(true)
		buf0 := s.MakeBuf()
		initPresent := map[int]bool{}
		for _, in := range itInit {
			if _, ok := e.insert(in.key, in.level, buf0); !ok {
				panic("setup insert failed")
			}
			initPresent[in.key] = true
		}
		var hist []linOp // mutator history per key, model state "0"/"1" per key handled separately
		type mop struct {
			op        slOp
			ok        bool
			call, ret int
		}
		var mops []mop
		var ths []*vrt.Thread
		for ti, prog := range d.mutators {
			ti, prog := ti, prog
			ths = append(ths, vrt.GoNamed(fmt.Sprintf("M%d", ti+1), func() {
				buf := s.MakeBuf()
				for _, op := range prog {
					call := vrt.Fence()
					var ok bool
					if op.kind == 'I' {
						_, ok = e.insert(op.key, op.level, buf)
					} else {
						ok = s.Delete(e.item(op.key), skiplist.CompareInt, buf, &s.Stats)
					}
					ret := vrt.Fence()
					mops = append(mops, mop{op, ok, call, ret})
				}
			}))
		}
		var obs []itObs
		var scanStart, scanEnd int
		ths = append(ths, vrt.GoNamed("IT", func() {
			buf := s.MakeBuf()
			it := s.NewIterator(skiplist.CompareInt, buf)
			switch d.mode {
			case "int1":
				it.SetRefreshInterval(1)
			case "int2":
				it.SetRefreshInterval(2)
			}
			scanStart = vrt.Fence()
			if d.start == 0 {
				it.SeekFirst()
			} else {
				it.Seek(e.item(d.start))
			}
		scan:
			for n := 0; it.Valid(); n++ {
				k := skiplist.IntFromItem(it.Get())
				_, mk := skiplist.VerifNextRaw(it.GetNode(), 0)
				obs = append(obs, itObs{k, vrt.Fence(), mk})
				if len(obs) > 50 {
					vrt.Fail("iterator-order", "scan does not terminate (more than 50 items returned)")
				}
				if n == 1 {
					switch d.mode {
					case "refresh":
						// Refresh re-seeks the current item; if that item was deleted meanwhile the
						// cursor now stands on its successor, which a caller has to read before
						// moving on (weaker reading of the contract: a Refresh is a repositioning).
						it.Refresh()
						if it.Valid() {
							if k2 := skiplist.IntFromItem(it.Get()); k2 != k {
								_, mk := skiplist.VerifNextRaw(it.GetNode(), 0)
								obs = append(obs, itObs{k2, vrt.Fence(), mk})
							}
						} else {
							break scan
						}
					case "pause":
						it.Pause()
						vrt.Fence()
						it.Resume()
					}
				}
				it.Next()
			}
			scanEnd = vrt.Fence()
			it.Close()
		}))
		vrt.NoBranch(false)
		vrt.Join(ths...)
		vrt.NoBranch(true)
		_ = hist

		var ks []string
		for _, o := range obs {
			ks = append(ks, fmt.Sprint(o.key))
		}
		var ms []string
		for _, m := range mops {
			ms = append(ms, fmt.Sprintf("%s=%v@[%d,%d]", m.op, m.ok, m.call, m.ret))
		}
		outcome = strings.Join(ks, " ")
		desc := fmt.Sprintf("scan[%d,%d] from %d returned %v with times %v; mutators %v", scanStart, scanEnd, d.start, ks, obs, ms)

		// history of key k as linearizable ops, plus one fictitious membership probe
		probe := func(k int, want bool, from, to int) bool {
			var h []linOp
			for _, m := range mops {
				if m.op.key != k {
					continue
				}
				m := m
				h = append(h, linOp{Call: m.call, Ret: m.ret, Apply: func(st string) (string, bool) {
					present := st == "1"
					if m.op.kind == 'I' {
						if !present {
							return "1", m.ok
						}
						return st, !m.ok
					}
					if present {
						return "0", m.ok
					}
					return st, !m.ok
				}})
			}
			h = append(h, linOp{Call: from, Ret: to, Apply: func(st string) (string, bool) { return st, (st == "1") == want }})
			init := "0"
			if initPresent[k] {
				init = "1"
			}
			ok, _ := linearizable(h, init)
			return ok
		}

		// 1. never goes backwards; repeats only across a delete + re-insert
		for i := 1; i < len(obs); i++ {
			if obs[i].key < obs[i-1].key {
				vrt.Fail("iterator-order", "iterator went backwards: "+desc)
			}
			if obs[i].key == obs[i-1].key {
				k := obs[i].key
				reins, del := false, false
				// the first of the two observations became the cursor during the Next call that
				// started after the observation before it: the delete + re-insert may lie anywhere
				// after that point (the cursor may stand on the already deleted node)
				since := scanStart
				if i >= 2 {
					since = obs[i-2].t
				}
				for _, m := range mops {
					if m.op.key == k && m.ok && m.op.kind == 'I' && m.call < obs[i].t && m.ret > since {
						reins = true
					}
					if m.op.key == k && m.ok && m.op.kind == 'D' && m.call < obs[i].t {
						del = true
					}
				}
				if !reins || !del {
					vrt.Fail("iterator-order", fmt.Sprintf("item %d returned twice without a delete and re-insert in between: %s", k, desc))
				}
			}
		}
		lower := d.start
		// 2. only items present at some moment during the scan; Seek lands >= x
		for _, o := range obs {
			if o.key < lower {
				vrt.Fail("iterator-order", fmt.Sprintf("Seek(%d) returned smaller item %d: %s", lower, o.key, desc))
			}
			if !probe(o.key, true, scanStart, o.t) {
				if o.marked {
					vrt.Fail("iterator-phantom-marked", fmt.Sprintf("item %d was returned from a node already marked deleted (not yet unlinked) although the set no longer contained it during the whole scan: %s", o.key, desc))
				}
				vrt.Fail("iterator-phantom", fmt.Sprintf("item %d was returned but was absent during the whole scan: %s", o.key, desc))
			}
		}
		// 3. every item present for the whole duration (and >= start) is returned; stable ones exactly once
		count := map[int]int{}
		for _, o := range obs {
			count[o.key]++
		}
		for _, k := range itStable {
			if k >= lower && count[k] != 1 {
				vrt.Fail("iterator-complete", fmt.Sprintf("stable item %d returned %d times: %s", k, count[k], desc))
			}
		}
		for _, k := range []int{20, 25, 40} {
			if k >= lower && count[k] == 0 && !probe(k, false, scanStart, scanEnd) {
				vrt.Fail("iterator-complete", fmt.Sprintf("item %d was present during the whole scan but was not returned: %s", k, desc))
			}
		}
	}
	jc.Sched(SchedOpts{Model: vrt.CostPreempt, Bound: bound, Outcome: func(r *vrt.Result) string { return outcome }}, body, nil)
}

func init() {
	register(&propDef{ID: "C15", Jobs: c15Jobs,
		Rule:  "all schedules within the preemption bound of an iterator thread (SeekFirst/Seek(x), Next to the end; plain, refresh interval 1/2, explicit Refresh, Pause/Resume) against 1-2 mutator threads inserting/deleting volatile keys {20,25,40} around stable items {10,30,50}; oracle flags only definite violations (membership probes decided by linearizability of each key's mutator history over the scan interval); non-trivial = schedule deviating from the default with a context switch",
		Notes: []string{"Go atomics are sequentially consistent", "nodes are never freed during the scan (memory safety of Pause/Resume is C04's subject)"}})
}
