package main

// Brute-force linearizability check (Wing & Gong style with memoisation) for the
// tiny histories produced by the closed drivers (at most ~10 operations).

import "sort"

type linOp struct {
	Call, Ret int // logical times (Ret == 0: never returned; not used here)
	Thread    int
	Desc      string
	// Apply runs the operation against the sequential model state; it returns the new
	// state and whether the recorded result is the one the model produces.
	Apply func(st string) (string, bool)
}

// linearizable reports whether ops has a linearization from init respecting real-time order.
// On success it returns the model state reached by (one) valid linearization.
func linearizable(ops []linOp, init string) (bool, string) {
	n := len(ops)
	if n > 20 {
		panic("history too long for brute force")
	}
	idx := make([]int, n)
	for i := range idx {
		idx[i] = i
	}
	sort.Slice(idx, func(a, b int) bool { return ops[idx[a]].Call < ops[idx[b]].Call })
	type key struct {
		done uint32
		st   string
	}
	seen := map[key]bool{}
	var final string
	var rec func(done uint32, st string) bool
	rec = func(done uint32, st string) bool {
		if done == (uint32(1)<<uint(n))-1 {
			final = st
			return true
		}
		k := key{done, st}
		if seen[k] {
			return false
		}
		seen[k] = true
		// minimal return time among pending ops: an op can be linearized next only if it
		// was called before every pending op returned
		minRet := int(^uint(0) >> 1)
		for i := 0; i < n; i++ {
			if done&(1<<uint(i)) == 0 && ops[i].Ret < minRet {
				minRet = ops[i].Ret
			}
		}
		for _, i := range idx {
			if done&(1<<uint(i)) != 0 {
				continue
			}
			if ops[i].Call > minRet {
				continue
			}
			if ns, ok := ops[i].Apply(st); ok {
				if rec(done|1<<uint(i), ns) {
					return true
				}
			}
		}
		return false
	}
	ok := rec(0, init)
	return ok, final
}

func histString(ops []linOp) string {
	s := ""
	for _, o := range ops {
		s += o.Desc + " "
	}
	return s
}
