package main

// Sequential (single harness goroutine) exploration of Nitro operation histories:
// every sequence over a small alphabet up to a depth, issued through two writers,
// with the background GC / free workers driven by a fixed policy. Equivalent
// prefixes are merged by a state key (model state + physical dump of the
// implementation). Used by C02 (set semantics), C01 (snapshot isolation, history
// part), C06 (GC precision, history part), C07 (release at Close), C14 (structure
// and statistics at nitro-level quiescent points).

import (
	"fmt"
	"sort"
	"strings"
	"unsafe"

	"github.com/couchbase/nitro"
	"github.com/couchbase/nitro/skiplist"
	"github.com/couchbase/nitro/zzverif/vrt"
)

type nOp struct {
	kind string // put del del2 delnode get snap close chain stop
	w    int
	k, v string
	h    int
	h2   int
	arg  string // oldest | newest
}

func (o nOp) String() string {
	switch o.kind {
	case "put":
		return fmt.Sprintf("w%d.Put(%s%s)", o.w, o.k, o.v)
	case "del":
		return fmt.Sprintf("w%d.Delete(%s)", o.w, o.k)
	case "del2":
		return fmt.Sprintf("w%d.Delete2(%s)", o.w, o.k)
	case "delnode":
		return fmt.Sprintf("w%d.DeleteNode(h%d)", o.w, o.h)
	case "get":
		return fmt.Sprintf("w%d.GetNode(%s)", o.w, o.k)
	case "snap":
		return "NewSnapshot"
	case "close":
		return "Close(" + o.arg + ")"
	case "chain":
		return fmt.Sprintf("NodeList: h%d.SetLink(h%d)", o.h, o.h2)
	case "iterclosed":
		return "NewIterator(closed snapshot)"
	}
	return o.kind
}

type seqCfg struct {
	nCfg
	policy   string // drain | starve
	depth    int
	maxSnaps int
	prop     string
	init     string   // "" (empty) | "ab" (a1,b1 inserted, one snapshot taken and kept open) | "abc"
	keys     []string // default {a,b}
	// check, if set, is evaluated at every newly reached state (used by C09 / C10)
	check func(e *nEnv, jc *JobCtx, fail func(kind, msg string))
	salt  int // level policy variant
}

// seqOps lists the operations enabled in the current state, simplest first.
func seqOps(e *nEnv, sc *seqCfg, phys []physVer) []nOp {
	var ops []nOp
	keys := []string{"a", "b"}
	if e.cfg.cmp == "kv" {
		keys = []string{"a", "ab"} // key-only comparator: keys of different length, one a prefix of the other
	}
	if sc.keys != nil {
		keys = sc.keys
	}
	vals := []string{"1", "2"}
	for _, k := range keys {
		for _, v := range vals {
			ops = append(ops, nOp{kind: "put", w: 0, k: k, v: v})
		}
	}
	for _, k := range keys {
		ops = append(ops, nOp{kind: "del", w: 0, k: k, v: "1"})
	}
	if len(e.snaps) < sc.maxSnaps {
		ops = append(ops, nOp{kind: "snap"})
	}
	nopen := 0
	for _, s := range e.snaps {
		if !s.closed {
			nopen++
		}
	}
	if nopen > 0 {
		ops = append(ops, nOp{kind: "close", arg: "oldest"})
		if nopen > 1 {
			ops = append(ops, nOp{kind: "close", arg: "newest"})
		}
	}
	// second writer (the last one created; with three writers the middle one of the writer list stays
	// idle): one put per key, Delete2
	w2 := len(e.ws) - 1
	for _, k := range keys {
		ops = append(ops, nOp{kind: "put", w: w2, k: k, v: "2"})
		ops = append(ops, nOp{kind: "del2", w: w2, k: k, v: "2"})
	}
	for _, k := range keys {
		ops = append(ops, nOp{kind: "get", w: 0, k: k, v: "1"})
	}
	// DeleteNode through handles whose node is still physically linked (a handle to an unlinked
	// node is a dangling reference by contract)
	linked := map[*skiplist.Node]bool{}
	for _, p := range phys {
		linked[p.node] = true
	}
	for hi, h := range e.handles {
		if linked[h.node] && hi < 3 {
			ops = append(ops, nOp{kind: "delnode", w: w2, h: hi})
			if h.ver.dead != 0 {
				// a losing DeleteNode through the other writer as well
				ops = append(ops, nOp{kind: "delnode", w: 0, h: hi})
			}
		}
	}
	// user-level chaining of live nodes through the node's link field (what NodeList.Add does); the
	// link field is shared with nitro's garbage lists, so only live, linked versions may be chained
	if e.cfg.mm && (sc.prop == "C07" || sc.prop == "C04") {
		for i := 0; i < len(e.handles) && i < 2; i++ {
			for j := 0; j < len(e.handles) && j < 3; j++ {
				hi, hj := e.handles[i], e.handles[j]
				if i != j && linked[hi.node] && linked[hj.node] && !hi.ver.removed && !hj.ver.removed && hi.ver.dead == 0 && hj.ver.dead == 0 && hi.node.GetLink() == nil && hj.node.GetLink() == nil {
					ops = append(ops, nOp{kind: "chain", h: i, h2: j})
				}
			}
		}
	}
	// NewIterator on a snapshot whose last reference was dropped (must return nil and leave nothing behind)
	if sc.prop == "C07" || sc.prop == "C04" || sc.prop == "C08" {
		for _, s := range e.snaps {
			if s.closed {
				ops = append(ops, nOp{kind: "iterclosed"})
				break
			}
		}
	}
	ops = append(ops, nOp{kind: "stop"})
	return ops
}

// pEpoch returns the largest epoch p such that every snapshot with sn <= p has been closed.
func (e *nEnv) pEpoch() uint32 {
	p := uint32(0)
	for _, s := range e.snaps { // in creation order: sn = 1,2,3...
		if !s.closed {
			break
		}
		p = s.sn
	}
	return p
}

func (e *nEnv) stateKey(phys []physVer) string {
	var sb strings.Builder
	fmt.Fprintf(&sb, "sn=%d|", e.m.sn)
	for _, v := range e.m.vers {
		fmt.Fprintf(&sb, "%s:%d:%d:%v,", v.bs, v.born, v.dead, v.removed)
	}
	sb.WriteString("|snaps=")
	for _, s := range e.snaps {
		_, rc := nitro.VerifSnapshotInfo(s.s)
		fmt.Fprintf(&sb, "%d:%v:%d,", s.sn, s.closed, rc)
	}
	fmt.Fprintf(&sb, "|open=%v", nitro.VerifOpenSnapshots(e.db))
	sb.WriteString("|phys=" + physString(phys))
	fmt.Fprintf(&sb, "|gc=%d|ret=%v|ic=%d|", nitro.VerifLastGCSn(e.db), nitro.VerifRetired(e.db), nitro.VerifItemsCount(e.db))
	for _, w := range e.ws {
		fmt.Fprintf(&sb, "w:%d[", nitro.VerifWriterCount(w))
		for _, n := range nitro.VerifWriterGCNodes(w) {
			b, _ := nitro.VerifItemSn(n.Item())
			fmt.Fprintf(&sb, "%s@%d,", nitro.VerifItemBytes(n.Item()), b)
		}
		sb.WriteString("]")
	}
	linked := map[*skiplist.Node]bool{}
	for _, p := range phys {
		linked[p.node] = true
	}
	for _, h := range e.handles {
		l := -1
		if linked[h.node] {
			if ln := h.node.GetLink(); ln != nil {
				l = -2
				for _, h2 := range e.handles {
					if h2.node == ln {
						l = h2.ver.id
					}
				}
			}
		}
		fmt.Fprintf(&sb, "h%d:%v:%d,", h.ver.id, linked[h.node], l)
	}
	if e.cfg.mm {
		// reclamation state: tokens outstanding in the current session, sessions closed / destructed / queued
		ab := nitro.VerifStore(e.db).GetAccesBarrier()
		a, f, q, fs := ab.GetStats()
		fmt.Fprintf(&sb, "|bar=%d,%d,%d,%d,%d", skiplist.VerifBarrierCurrentLive(ab), a, f, q, fs)
		live, _ := e.ga.Live()
		fmt.Fprintf(&sb, "|blocks=%d", live)
	}
	st := nitro.VerifAggrStats(e.db)
	fmt.Fprintf(&sb, "|st=%d,%d,%d,%d,%d,%v", st.NodeCount, st.SoftDeletes, st.Memory, st.NodeAllocs, st.NodeFrees, st.NodeDistribution[:4])
	return sb.String()
}

// apply performs op on the instance and on the model; returns a discrepancy in return values.
func (e *nEnv) apply(op nOp, sc *seqCfg) string {
	bs := e.cfg.itemBytes(op.k, op.v)
	switch op.kind {
	case "put":
		n := e.put(op.w, bs)
		v, ok := e.m.Put(string(bs))
		if (n != nil) != ok {
			return fmt.Sprintf("%s returned node=%v, model says success=%v", op, n != nil, ok)
		}
		if ok {
			e.handles = append(e.handles, &hRec{node: n, ver: v})
		}
	case "del":
		got := e.ws[op.w].Delete(bs)
		_, ok := e.m.DeleteKey(string(bs))
		if got != ok {
			return fmt.Sprintf("%s returned %v, model says %v", op, got, ok)
		}
	case "del2":
		n, got := e.ws[op.w].Delete2(bs)
		_, ok := e.m.DeleteKey(string(bs))
		if got != ok || (n != nil) != ok {
			return fmt.Sprintf("%s returned (node=%v,%v), model says %v", op, n != nil, got, ok)
		}
	case "delnode":
		h := e.handles[op.h]
		got := e.ws[op.w].DeleteNode(h.node)
		ok := e.m.DeleteVer(h.ver)
		if got != ok {
			return fmt.Sprintf("%s (version %s born %d) returned %v, model says %v", op, show(h.ver.bs), h.ver.born, got, ok)
		}
	case "get":
		n := e.ws[op.w].GetNode(bs)
		v := e.m.live(e.cfg.keyOf(string(bs)))
		if (n != nil) != (v != nil) {
			return fmt.Sprintf("%s found=%v, model says live=%v", op, n != nil, v != nil)
		}
		if n != nil && !e.cfg.mm {
			if got := string(nitro.VerifItemBytes(n.Item())); got != v.bs {
				return fmt.Sprintf("%s returned the node of %s, the live version is %s", op, show(got), show(v.bs))
			}
		}
	case "snap":
		s, err := e.db.NewSnapshot()
		if err != nil {
			return "NewSnapshot failed: " + err.Error()
		}
		sn, content := e.m.Snapshot()
		os := &openSnap{s: s, sn: sn, content: content}
		e.snaps = append(e.snaps, os)
		if sc.prop == "C02" || sc.prop == "C01" {
			if ic := e.db.ItemsCount(); ic != int64(len(content)) {
				return fmt.Sprintf("after NewSnapshot ItemsCount()=%d, the reference set has %d live items %s", ic, len(content), showAll(content))
			}
			if c := s.Count(); c != int64(len(content)) {
				return fmt.Sprintf("new snapshot Count()=%d, the reference set has %d live items %s", c, len(content), showAll(content))
			}
			got, p := scanSnap(s)
			if p != "" {
				return p
			}
			if fmt.Sprint(got) != fmt.Sprint(content) {
				return fmt.Sprintf("new snapshot (epoch %d) scans %s, the reference set is %s", sn, showAll(got), showAll(content))
			}
		}
	case "chain":
		e.handles[op.h].node.SetLink(e.handles[op.h2].node)
	case "iterclosed":
		for _, s := range e.snaps {
			if s.closed {
				if it := s.s.NewIterator(); it != nil {
					it.Close()
					return fmt.Sprintf("NewIterator succeeded on snapshot epoch %d after its last reference was dropped", s.sn)
				}
				break
			}
		}
	case "close":
		var t *openSnap
		for _, s := range e.snaps {
			if !s.closed {
				if t == nil || op.arg == "newest" {
					t = s
				}
			}
		}
		t.closed = true
		t.s.Close()
	}
	return ""
}

// checkOpenSnapshots: C01 oracle — every open snapshot still presents exactly its content.
func (e *nEnv) checkOpenSnapshots() string {
	for _, s := range e.snaps {
		if s.closed {
			continue
		}
		got, p := scanSnap(s.s)
		if p != "" {
			return fmt.Sprintf("snapshot epoch %d: %s", s.sn, p)
		}
		if fmt.Sprint(got) != fmt.Sprint(s.content) {
			return fmt.Sprintf("open snapshot epoch %d now scans %s, at creation it held %s", s.sn, showAll(got), showAll(s.content))
		}
		if c := s.s.Count(); c != int64(len(s.content)) {
			return fmt.Sprintf("open snapshot epoch %d Count()=%d, it holds %d items", s.sn, c, len(s.content))
		}
		// the same content through the parallel scan API (two shards)
		if p := visitOnce(e, s, 2, 1, 0); p != "" {
			return p
		}
		// the same scan through an iterator that refreshes its accessor token after every item
		got2, p2 := scanSnapRate(s.s, 1)
		if p2 != "" {
			return fmt.Sprintf("snapshot epoch %d (refresh rate 1): %s", s.sn, p2)
		}
		if fmt.Sprint(got2) != fmt.Sprint(s.content) {
			return fmt.Sprintf("open snapshot epoch %d scanned with refresh rate 1 yields %s, at creation it held %s", s.sn, showAll(got2), showAll(s.content))
		}
	}
	return ""
}

// checkGC: C06 oracle. safetyOnly: only "visible versions are physically present".
func (e *nEnv) checkGC(phys []physVer, exact bool) string {
	present := map[string]bool{}
	for _, p := range phys {
		if !p.marked {
			present[fmt.Sprintf("%s@%d", p.bs, p.born)] = true
		}
	}
	for _, s := range e.snaps {
		if s.closed {
			continue
		}
		for _, v := range e.m.vers {
			if v.visible(s.sn) && !present[fmt.Sprintf("%s@%d", v.bs, v.born)] {
				return fmt.Sprintf("version %s (born %d, dead %d) is visible to open snapshot epoch %d but is no longer physically present", show(v.bs), v.born, v.dead, s.sn)
			}
		}
	}
	if !exact {
		return ""
	}
	p := e.pEpoch()
	var want []string
	for _, v := range e.m.vers {
		if !v.removed && (v.dead == 0 || v.dead > p) {
			want = append(want, fmt.Sprintf("%s@%d-%d", show(v.bs), v.born, v.dead))
		}
	}
	var got []string
	for _, pv := range phys {
		m := ""
		if pv.marked {
			m = "*marked"
		}
		got = append(got, fmt.Sprintf("%s@%d-%d%s", show(pv.bs), pv.born, pv.dead, m))
	}
	sort.Strings(want)
	g2 := append([]string{}, got...)
	sort.Strings(g2)
	if fmt.Sprint(g2) != fmt.Sprint(want) {
		return fmt.Sprintf("at quiescence after a collection pass (all snapshots <= %d closed) the structure holds %v, expected exactly the live items and the versions still pinned: %v", p, got, want)
	}
	if l := e.db.GetLastGCSn(); l != p {
		return fmt.Sprintf("GetLastGCSn()=%d but every snapshot up to %d has been closed", l, p)
	}
	st := nitro.VerifStore(e.db)
	_ = st
	stats := e.db.DumpStats()
	var nodeCount, soft int
	var mem int64
	fmt.Sscanf(fieldOf(stats, "node_count"), "%d", &nodeCount)
	fmt.Sscanf(fieldOf(stats, "soft_deletes"), "%d", &soft)
	fmt.Sscanf(fieldOf(stats, "memory_used"), "%d", &mem)
	if nodeCount != len(want) || soft != 0 {
		return fmt.Sprintf("DumpStats node_count=%d soft_deletes=%d, expected %d and 0 (%v)", nodeCount, soft, len(want), want)
	}
	var wantMem int64
	for _, pv := range phys {
		wantMem += int64(nitro.VerifStore(e.db).Size(pv.node))
	}
	if mem != wantMem {
		return fmt.Sprintf("DumpStats memory_used=%d, the nodes present account for %d", mem, wantMem)
	}
	nopen := 0
	for _, s := range e.snaps {
		if !s.closed {
			nopen++
		}
	}
	retired := len(nitro.VerifRetired(e.db))
	snapSize := int64(nitro.SnapshotSize(unsafe.Pointer(e.snapAny())))
	if miu := e.db.MemoryInUse(); miu != wantMem+int64(nopen+retired)*(snapSize+int64(nodeSize0())) {
		return fmt.Sprintf("MemoryInUse()=%d, expected %d for the nodes present plus %d open and %d retired snapshots", miu, wantMem+int64(nopen+retired)*(snapSize+int64(nodeSize0())), nopen, retired)
	}
	if nopen == 0 && retired == 0 {
		live := e.m.liveSet()
		// between snapshots ItemsCount lags behind writer-local counts: compare the merged value
		var total int64 = e.db.ItemsCount()
		for _, w := range e.ws {
			total += nitro.VerifWriterCount(w)
		}
		if total != int64(len(live)) {
			return fmt.Sprintf("no snapshot open: live-item count %d (ItemsCount + writer deltas) differs from the %d live items", total, len(live))
		}
	}
	return ""
}

func (e *nEnv) snapAny() *nitro.Snapshot {
	if len(e.snaps) > 0 {
		return e.snaps[0].s
	}
	return &nitro.Snapshot{}
}

// nodeSize0 is the size of a level-0 skiplist node (snapshot lists insert at level 0 under the harness policy).
func nodeSize0() int { return skiplist.New().NewNode(0).Size() }

func fieldOf(stats, name string) string {
	i := strings.Index(stats, `"`+name+`":`)
	if i < 0 {
		return ""
	}
	rest := stats[i+len(name)+3:]
	j := strings.IndexAny(rest, ",\n")
	if j < 0 {
		j = len(rest)
	}
	return strings.TrimSpace(rest[:j])
}

// checkStructure: C14 oracle at a nitro-level quiescent point.
func (e *nEnv) checkStructure() string {
	st := nitro.VerifStore(e.db)
	cmp := func(a, b unsafe.Pointer) int {
		ba, bb := string(nitro.VerifItemBytes(a)), string(nitro.VerifItemBytes(b))
		if e.cfg.less(ba, bb) {
			return -1
		}
		if e.cfg.less(bb, ba) {
			return 1
		}
		sa, _ := nitro.VerifItemSn(a)
		sb, _ := nitro.VerifItemSn(b)
		return int(sa) - int(sb)
	}
	wi, p := walkSkiplist(st, cmp)
	if p != "" {
		return p
	}
	// nitro's statistics after merging the writer-local ones
	stats := e.db.DumpStats()
	var nodeCount, soft int
	var mem, allocs, frees int64
	fmt.Sscanf(fieldOf(stats, "node_count"), "%d", &nodeCount)
	fmt.Sscanf(fieldOf(stats, "soft_deletes"), "%d", &soft)
	fmt.Sscanf(fieldOf(stats, "memory_used"), "%d", &mem)
	fmt.Sscanf(fieldOf(stats, "node_allocs"), "%d", &allocs)
	fmt.Sscanf(fieldOf(stats, "node_frees"), "%d", &frees)
	if nodeCount != len(wi.linked0) {
		return fmt.Sprintf("DumpStats node_count=%d but %d nodes are linked at level 0", nodeCount, len(wi.linked0))
	}
	if soft != wi.marked0 {
		return fmt.Sprintf("DumpStats soft_deletes=%d but %d marked nodes are linked at level 0", soft, wi.marked0)
	}
	if mem != wi.mem {
		return fmt.Sprintf("DumpStats memory_used=%d but linked nodes account for %d bytes", mem, wi.mem)
	}
	for h := 0; h <= skiplist.MaxLevel; h++ {
		var d int64
		fmt.Sscanf(fieldOf(stats, fmt.Sprintf("level%d", h)), "%d", &d)
		if d != wi.dist[h] {
			return fmt.Sprintf("DumpStats level%d=%d but the walk finds %d nodes of that height", h, d, wi.dist[h])
		}
	}
	if e.cfg.mm {
		// user-managed memory: allocations minus frees = nodes still allocated = linked nodes + nodes unlinked but not yet freed (none at quiescence)
		if allocs-frees != int64(len(wi.linked0)) {
			return fmt.Sprintf("DumpStats node_allocs-node_frees=%d but %d nodes are linked (nothing is pending at quiescence)", allocs-frees, len(wi.linked0))
		}
		live, _ := e.ga.Live()
		// blocks: 2 sentinels + (node + item) per linked node
		if live != 2+2*len(wi.linked0) {
			return fmt.Sprintf("allocator holds %d live blocks, the structure accounts for %d (2 sentinels + node and item of %d linked nodes)", live, 2+2*len(wi.linked0), len(wi.linked0))
		}
	}
	return ""
}

func runSeq(jc *JobCtx, sc seqCfg, firstOps []int) {
	seen := map[string]int{}
	var outcome string
	rep := jc.Rep
	body := func() {
		outcome = ""
		e := newNEnv(sc.nCfg)
		vrt.NoBranch(true)
		var hist []string
		fail := func(kind, msg string) {
			vrt.Fail(kind, msg+"  [history: "+strings.Join(hist, "; ")+"]")
		}
		e.salt = sc.salt
		if sc.init != "" {
			iops := []nOp{{kind: "put", w: 0, k: "a", v: "1"}, {kind: "put", w: 0, k: "b", v: "1"}}
			if sc.init == "abc" {
				iops = append(iops, nOp{kind: "put", w: 0, k: "c", v: "1"})
			}
			iops = append(iops, nOp{kind: "snap"})
			for _, op := range iops {
				hist = append(hist, op.String())
				if p := e.apply(op, &sc); p != "" {
					fail("set-semantics", p)
				}
			}
			vrt.WaitIdle()
		}
		pruned := false
		for step := 0; step < sc.depth; step++ {
			phys, pp := e.physDump()
			if pp != "" {
				fail("structure", pp)
			}
			ops := seqOps(e, &sc, phys)
			var i int
			if step < len(firstOps) {
				i = firstOps[step]
				if i >= len(ops) {
					outcome = "n/a"
					return
				}
			} else {
				i = vrt.Choose(len(ops))
			}
			op := ops[i]
			if op.kind == "stop" {
				break
			}
			hist = append(hist, op.String())
			if p := e.apply(op, &sc); p != "" {
				if sc.prop == "C02" {
					fail("set-semantics", p)
				}
				if op.kind == "iterclosed" {
					fail("refcount", p)
				}
				// other properties: a wrong return value is C02's business, but the model would diverge; stop here
				outcome = "diverged"
				return
			}
			if sc.policy == "drain" {
				vrt.WaitIdle()
			}
			switch sc.prop {
			case "C01":
				if p := e.checkOpenSnapshots(); p != "" {
					fail("snapshot-isolation", p)
				}
			case "C06":
				if sc.policy == "drain" {
					e.db.GC()
					vrt.WaitIdle()
				}
				ph, pp := e.physDump()
				if pp != "" {
					fail("structure", pp)
				}
				if p := e.checkGC(ph, sc.policy == "drain"); p != "" {
					fail("gc", p)
				}
				rep.Extra["quiescent_points_checked"]++
			case "C14":
				if sc.policy == "drain" {
					if p := e.checkStructure(); p != "" {
						fail("structure", p)
					}
					rep.Extra["quiescent_points_checked"]++
				}
			}
			ph2, pp2 := e.physDump()
			if pp2 != "" {
				fail("structure", pp2)
			}
			key := e.stateKey(ph2)
			remaining := sc.depth - step - 1
			// states along the replayed prefix are being explored by this very search: only a state
			// reached by a new choice may be merged with an earlier visit
			if made, pl := vrt.ChoicesMade(); made >= pl {
				if r, ok := seen[key]; ok && r >= remaining {
					pruned = true
					break
				}
			}
			if r, ok := seen[key]; !ok || r < remaining {
				seen[key] = remaining
			}
			if sc.check != nil {
				sc.check(e, jc, fail)
			}
		}
		if pruned {
			outcome = "merged"
			return
		}
		// end of history: one more snapshot (stitches the writers' pending garbage), close everything,
		// forced pass, final checks, shut down
		if sc.prop == "C06" || sc.prop == "C07" || sc.prop == "C14" {
			hist = append(hist, "NewSnapshot(final)")
			if p := e.apply(nOp{kind: "snap"}, &sc); p != "" {
				fail("set-semantics", p)
			}
		}
		for _, s := range e.snaps {
			if !s.closed {
				s.closed = true
				s.s.Close()
			}
		}
		vrt.WaitIdle()
		e.db.GC()
		vrt.WaitIdle()
		ph, pp := e.physDump()
		if pp != "" {
			fail("structure", pp)
		}
		switch sc.prop {
		case "C06":
			if p := e.checkGC(ph, true); p != "" {
				fail("gc", "after closing every snapshot: "+p)
			}
		case "C14":
			if p := e.checkStructure(); p != "" {
				fail("structure", "after closing every snapshot: "+p)
			}
		}
		e.closing = true
		e.db.Close()
		if sc.prop == "C07" && e.ga != nil {
			if n, desc := e.ga.Live(); n != 0 {
				fail("leak", fmt.Sprintf("%d blocks were never returned to the allocator after Close(): %s", n, desc))
			}
		}
		outcome = fmt.Sprintf("live=%d phys=%d", len(e.m.liveSet()), len(ph))
		if len(rep.Samples) < 2 && len(hist) >= sc.depth-1 {
			rep.Samples = append(rep.Samples, fmt.Sprintf("%s: history [%s] -> %s", jc.Job.Name, strings.Join(hist, "; "), outcome))
		}
	}
	horizon := 0
	if sc.check != nil {
		horizon = 50000000
	}
	jc.Sched(SchedOpts{Model: vrt.CostPreempt, Bound: 0, NoDetCheck: true, NoSamples: true, Horizon: horizon, Outcome: func(r *vrt.Result) string { return outcome }}, body, nil)
	rep.Extra["distinct_states"] += int64(len(seen))
	rep.Nontrivial = int64(len(seen))
	rep.Bound = fmt.Sprintf("depth<=%d", sc.depth)
}
