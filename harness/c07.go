package main

import (
	"fmt"

	vos "github.com/couchbase/nitro/zzverif/os"
	"github.com/couchbase/nitro/zzverif/vrt"
)

func init() {
	register(&propDef{ID: "C07",
		Jobs: func(tier string) []Job {
			jobs := seqJobs("C07", tier, seqCfgs(tier, []bool{true}, []string{"default", "kv"}, []string{"drain", "starve"}, 5, 6))
			// instances populated by LoadFromDisk (with and without delta interleaving)
			for _, delta := range []bool{false, true} {
				jobs = append(jobs, seqJobs("C07", tier, []seqCfg{{nCfg: nCfg{cmp: "default", writers: 2, mm: true, delta: delta}, policy: "drain", depth: 2, maxSnaps: 3, init: "abc", keys: []string{"a", "b", "c"},
					check: c05Check("C07", []int{1, 2}, []int{1}, []int{1, 2})}})...)
			}
			jobs = append(jobs, restoreLeakJobs()...)
			return append(jobs, c07ConcJobs(tier)...)
		},
		Rule:  "user-managed memory on the guard allocator (one page-aligned slot per block, never reused, freed pages inaccessible): every operation sequence up to the depth (alphabet of C02: rejected Puts, same-epoch and cross-epoch deletes, losing DeleteNode, snapshots closed in every order), workers drained or starved, ended by a final snapshot, closing every snapshot and Close(); the allocator live set must be empty, no block freed twice, no block freed that was never allocated; conc jobs: the C04 concurrent drivers run to Close(); non-trivial = distinct states / deviating schedules",
		Notes: []string{"successful LoadFromDisk only (error-path leaks are fault-sequence behaviour outside C07's quantifier)"}})
}

func c07ConcJobs(tier string) []Job { return smrJobs("C07")(tier) }

// restoreLeakJobs: a backup with delta interleaving during which an item already written to the data
// file is deleted and collected (so it is also logged to the delta file and rejected as a duplicate on
// restore), restored into a fresh instance with user-managed memory; both instances are closed.
func restoreLeakJobs() []Job {
	var jobs []Job
	for _, dup := range []bool{true, false} {
		for _, lc := range []int{1, 2} {
			dup, lc := dup, lc
			jobs = append(jobs, Job{Name: fmt.Sprintf("C07/restore-delta/dup=%v/loadconc%d", dup, lc), Run: func(jc *JobCtx) {
				var outcome string
				body := func() {
					outcome = ""
					c := cannedDB{name: "delta-mm", cfg: nCfg{cmp: "default", writers: 1, delta: true, mm: true}, ncpu: 2, items: []string{"a1", "b1", "c1", "d1"}, levels: []int{0, 1, 1, 0}, delta: true, dup: dup}
					resetFS()
					vrt.NoBranch(true)
					e, err := buildBackup(&c, 1)
					if err != nil {
						outcome = "store-error"
						return
					}
					r := loadBackup(c.cfg, e.ga, lc)
					if r.err != nil {
						vrt.Fail("backup", "LoadFromDisk failed: "+r.err.Error())
					}
					if fmt.Sprint(r.content) != fmt.Sprint(c.content) {
						vrt.Fail("backup", fmt.Sprintf("restored %s instead of %s", showAll(r.content), showAll(c.content)))
					}
					r.snap.Close()
					r.snap = nil
					vrt.WaitIdle()
					r.db.Close()
					// close the original as well: nothing may stay allocated
					s, _ := e.db.NewSnapshot()
					s.Close()
					vrt.WaitIdle()
					e.closing = true
					e.db.Close()
					vos.FS = nil
					if n, desc := e.ga.Live(); n != 0 {
						vrt.Fail("leak", fmt.Sprintf("backup with delta interleaving (an item present in data and delta files: %v) restored into a fresh instance; after closing both instances %d blocks were never returned: %s", dup, n, desc))
					}
					outcome = "ok"
				}
				jc.Sched(SchedOpts{Model: vrt.CostDelay, Bound: 1, Outcome: func(r *vrt.Result) string { return outcome }}, body, nil)
			}})
		}
	}
	return jobs
}
