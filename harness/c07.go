package main

func init() {
	register(&propDef{ID: "C07",
		Jobs: func(tier string) []Job {
			jobs := seqJobs("C07", tier, seqCfgs(tier, []bool{true}, []string{"default", "kv"}, []string{"drain", "starve"}, 5, 6))
			// instances populated by LoadFromDisk (with and without delta interleaving)
			for _, delta := range []bool{false, true} {
				jobs = append(jobs, seqJobs("C07", tier, []seqCfg{{nCfg: nCfg{cmp: "default", writers: 2, mm: true, delta: delta}, policy: "drain", depth: 2, maxSnaps: 3, init: "abc", keys: []string{"a", "b", "c"},
					check: c05Check("C07", []int{1, 2}, []int{1}, []int{1, 2})}})...)
			}
			return append(jobs, c07ConcJobs(tier)...)
		},
		Rule:  "user-managed memory on the guard allocator (one page-aligned slot per block, never reused, freed pages inaccessible): every operation sequence up to the depth (alphabet of C02: rejected Puts, same-epoch and cross-epoch deletes, losing DeleteNode, snapshots closed in every order), workers drained or starved, ended by a final snapshot, closing every snapshot and Close(); the allocator live set must be empty, no block freed twice, no block freed that was never allocated; conc jobs: the C04 concurrent drivers run to Close(); non-trivial = distinct states / deviating schedules",
		Notes: []string{"successful LoadFromDisk only (error-path leaks are fault-sequence behaviour outside C07's quantifier)"}})
}

func c07ConcJobs(tier string) []Job { return smrJobs("C07")(tier) }
