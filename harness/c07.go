package main

func init() {
	register(&propDef{ID: "C07",
		Jobs: func(tier string) []Job {
			jobs := seqJobs("C07", tier, seqCfgs(tier, []bool{true}, []string{"default", "kv"}, []string{"drain", "starve"}, 5, 6))
			return append(jobs, c07ConcJobs(tier)...)
		},
		Rule:  "user-managed memory on the guard allocator (one page-aligned slot per block, never reused, freed pages inaccessible): every operation sequence up to the depth (alphabet of C02: rejected Puts, same-epoch and cross-epoch deletes, losing DeleteNode, snapshots closed in every order), workers drained or starved, ended by a final snapshot, closing every snapshot and Close(); the allocator live set must be empty, no block freed twice, no block freed that was never allocated; conc jobs: the C04 concurrent drivers run to Close(); non-trivial = distinct states / deviating schedules",
		Notes: []string{"successful LoadFromDisk only (error-path leaks are fault-sequence behaviour outside C07's quantifier); restored instances are covered by the C05 jobs with user-managed memory"}})
}

func c07ConcJobs(tier string) []Job { return smrJobs("C07")(tier) }
