package main

func init() {
	register(&propDef{ID: "C01",
		Jobs: func(tier string) []Job {
			jobs := seqJobs("C01", tier, seqCfgs(tier, []bool{false, true}, []string{"default", "kv"}, []string{"drain", "starve"}, 5, 6))
			return append(jobs, c01ConcJobs(tier)...)
		},
		Rule:  "histories: every operation sequence up to the depth (alphabet of C02, snapshots kept open and closed in every order), after every call every open snapshot is fully scanned and Count() read and compared with the reference content captured at creation; schedules: see the conc jobs (reader scanning a pinned snapshot while other snapshots are closed out of order, a writer mutates and the GC / free workers unlink nodes), all schedules within the delay / preemption bound; non-trivial = distinct states / deviating schedules",
		Notes: []string{"at most 3 snapshots per history", "Go atomics sequentially consistent"}})
	register(&propDef{ID: "C06",
		Jobs: func(tier string) []Job {
			jobs := seqJobs("C06", tier, seqCfgs(tier, []bool{false, true}, []string{"default", "kv"}, []string{"drain", "starve"}, 5, 6))
			// three writers: the middle one of the writer list stays idle (stitching of the per-writer garbage lists)
			d3 := 4
			if tier == "thorough" {
				d3 = 5
			}
			jobs = append(jobs, seqJobs("C06", tier, []seqCfg{{nCfg: nCfg{cmp: "default", writers: 3}, policy: "drain", depth: d3, maxSnaps: 3, init: "ab"}})...)
			return append(jobs, c06ConcJobs(tier)...)
		},
		Rule:  "histories: every operation sequence up to the depth (alphabet of C02 incl. losing DeleteNode through a second writer); at every point every version visible to an open snapshot must be physically present; at every quiescent point after a forced pass (workers drained, GC()) the physical set must be exactly live items + versions with dead > p (p = largest epoch with all snapshots <= p closed), and node_count / soft_deletes / memory_used / MemoryInUse / GetLastGCSn agree; schedules: see the conc jobs; non-trivial = distinct states / deviating schedules",
		Notes: []string{"'pinned' is read with nitro's documented in-order rule (snapshot n's garbage is released only when every snapshot <= n is closed)"}})
}

func c01ConcJobs(tier string) []Job { return concJobs("C01", tier) }
func c06ConcJobs(tier string) []Job { return concJobs("C06", tier) }
