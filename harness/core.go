package main

import (
	"fmt"
	"os"
	"sort"
	"strings"
	"time"

	"github.com/couchbase/nitro/zzverif/vrt"
)

// A Job is one unit of exhaustive exploration: a closed driver explored over all
// schedules within a bound, or a sequential/explicit-state search. Jobs are
// generated deterministically per (property, tier) so that workers can address
// them by index.
type Job struct {
	Name   string
	Shards int // >1: the schedule tree of this job is dealt out to that many tasks
	Run    func(jc *JobCtx)
}

type JobCtx struct {
	Prop     string
	Tier     string
	Job      *Job
	Shard    int
	NShard   int
	Deadline time.Time
	Rep      *Report
	// replay mode
	Replay      bool
	ReplayChois []int
	ReplayTrace bool
}

type Viol struct {
	Kind    string `json:"kind"`
	Msg     string `json:"msg"`
	Site    string `json:"site"`
	Job     string `json:"job"`
	Choices []int  `json:"choices"`
	Bound   string `json:"bound,omitempty"`
}

// Sig is the signature used to match known findings: violation kind, detection site.
func (v *Viol) Sig() string { return v.Kind + " @ " + v.Site }

type Report struct {
	Job         string           `json:"job"`
	Shard       int              `json:"shard"`
	Executions  int64            `json:"executions"`
	Transitions int64            `json:"transitions"`
	Nodes       int64            `json:"nodes"`
	Nontrivial  int64            `json:"nontrivial"`
	Outcomes    map[string]int64 `json:"outcomes"`
	Samples     []string         `json:"samples"`
	Violations  []Viol           `json:"violations"`
	Exhaustive  bool             `json:"exhaustive"`
	CapHit      string           `json:"cap_hit,omitempty"`
	Bound       string           `json:"bound"`
	Extra       map[string]int64 `json:"extra,omitempty"`
	Error       string           `json:"error,omitempty"` // infrastructure error (not a verdict)
	WallMs      int64            `json:"wall_ms"`
}

func newReport(job string, shard int) *Report {
	return &Report{Job: job, Shard: shard, Outcomes: map[string]int64{}, Extra: map[string]int64{}, Exhaustive: true}
}

func (r *Report) outcome(s string) {
	if len(s) > 300 {
		s = s[:300]
	}
	r.Outcomes[s]++
}

func (r *Report) sample(s string) {
	if len(r.Samples) < 3 {
		r.Samples = append(r.Samples, s)
	}
}

func (r *Report) violate(v Viol) {
	// keep one violation per signature per job (the first = smallest in DFS order), cap total
	for _, o := range r.Violations {
		if o.Sig() == v.Sig() {
			r.Extra["violating_executions"]++
			return
		}
	}
	r.Extra["violating_executions"]++
	if len(r.Violations) >= 64 {
		return
	}
	if len(v.Msg) > 4000 {
		v.Msg = v.Msg[:4000]
	}
	r.Violations = append(r.Violations, v)
}

// SchedOpts describes a schedule exploration of one closed driver.
type SchedOpts struct {
	Model   vrt.CostModel
	Bound   int
	Horizon int
	// Outcome, if set, is called after every execution and returns a short string that
	// classifies it (distinct outcomes are counted; one outcome overall means the driver
	// never made anything collide).
	Outcome func(r *vrt.Result) string
	// NoDetCheck skips the start-up determinism run (used by callers that do it themselves).
	NoDetCheck bool
	// NoSamples: the caller records its own samples (operation histories instead of choice lists).
	NoSamples bool
}

func choiceIdx(cs []vrt.Choice) []int {
	idx := make([]int, len(cs))
	for i, c := range cs {
		idx[i] = c.Idx
	}
	return idx
}

// choiceStr renders a choice list run-length encoded: "1 0*42 2".
func choiceStr(c []int) string {
	var sb strings.Builder
	for i := 0; i < len(c); {
		j := i
		for j < len(c) && c[j] == c[i] {
			j++
		}
		if sb.Len() > 0 {
			sb.WriteByte(' ')
		}
		if j-i > 1 {
			fmt.Fprintf(&sb, "%d*%d", c[i], j-i)
		} else {
			fmt.Fprintf(&sb, "%d", c[i])
		}
		i = j
	}
	return sb.String()
}

// Sched explores all schedules of body within the bound and evaluates check on each.
// In replay mode it runs the single recorded schedule with tracing.
func (jc *JobCtx) Sched(o SchedOpts, body func(), check func(r *vrt.Result) vrt.Verdict) {
	if o.Horizon == 0 {
		o.Horizon = 200000
	}
	rep := jc.Rep
	boundStr := fmt.Sprintf("%s<=%d", o.Model, o.Bound)
	if jc.Replay {
		r := vrt.Run(jc.ReplayChois, nil, jc.ReplayTrace, o.Horizon, body)
		v := r.Verdict
		if v.Kind == "" && len(r.Notes) > 0 {
			v = r.Notes[0]
		}
		if v.Kind == "" && check != nil {
			v = check(&r)
		}
		if jc.ReplayTrace {
			for _, l := range r.Trace {
				fmt.Println(l)
			}
		}
		if v.Kind != "" {
			rep.violate(Viol{Kind: v.Kind, Msg: v.Msg, Site: v.Site, Job: jc.Job.Name, Choices: choiceIdx(r.Choices), Bound: boundStr})
		}
		rep.Executions++
		return
	}
	if !o.NoDetCheck && jc.Shard == 0 {
		// determinism guard: the default schedule twice, observations must be identical
		a := vrt.Run(nil, nil, false, o.Horizon, body)
		b := vrt.Run(nil, a.Choices, false, o.Horizon, body)
		if a.ObsHash != b.ObsHash || a.Steps != b.Steps || len(a.Choices) != len(b.Choices) || a.Verdict.Kind != b.Verdict.Kind {
			rep.Error = fmt.Sprintf("NONDETERMINISM: default schedule differs between two runs of %s: steps %d/%d choices %d/%d obs %x/%x verdict %q/%q",
				jc.Job.Name, a.Steps, b.Steps, len(a.Choices), len(b.Choices), a.ObsHash, b.ObsHash, a.Verdict.Kind, b.Verdict.Kind)
			return
		}
	}
	nontrivSeen := map[uint64]bool{}
	opts := vrt.Opts{Model: o.Model, Bound: o.Bound, Horizon: o.Horizon, ShardIdx: jc.Shard, ShardN: jc.NShard, Deadline: jc.Deadline}
	st := vrt.Explore(opts, body, func(r *vrt.Result) vrt.Verdict {
		var v vrt.Verdict
		if r.Verdict.Kind == "" && len(r.Notes) == 0 && check != nil {
			v = check(r)
		}
		oc := ""
		if r.Verdict.Kind != "" {
			oc = "!" + r.Verdict.Kind + " @ " + r.Verdict.Site
		} else if len(r.Notes) > 0 {
			oc = "!" + r.Notes[0].Kind + " @ " + r.Notes[0].Site
		} else if v.Kind != "" {
			oc = "!" + v.Kind + " @ " + v.Site
		} else if o.Outcome != nil {
			oc = o.Outcome(r)
		}
		rep.outcome(oc)
		// non-trivial = a schedule that deviates from the default one (distinct by observation hash)
		if r.Switches > 0 {
			dev := false
			for _, c := range r.Choices {
				if c.Idx != 0 {
					dev = true
					break
				}
			}
			if dev && !nontrivSeen[r.ObsHash] {
				nontrivSeen[r.ObsHash] = true
				rep.Nontrivial++
			}
		}
		if !o.NoSamples && len(rep.Samples) < 2 && (rep.Executions == 0 || r.Switches > 1) {
			rep.sample(fmt.Sprintf("%s schedule=[%s] steps=%d switches=%d outcome=%s", jc.Job.Name, choiceStr(choiceIdx(r.Choices)), r.Steps, r.Switches, oc))
		}
		return v
	})
	rep.Executions += int64(st.Executions)
	rep.Transitions += int64(st.Transitions)
	rep.Nodes += int64(st.Nodes)
	rep.Extra["replayed_prefix_executions"] += int64(st.Replayed)
	if !st.Exhaustive {
		rep.Exhaustive = false
		rep.CapHit = st.CapHit
	}
	rep.Bound = boundStr
	for _, v := range st.Violations {
		if v.Verdict.Kind == "nondeterminism" {
			rep.Error = "NONDETERMINISM in " + jc.Job.Name + ": " + v.Verdict.Msg
			return
		}
		rep.violate(Viol{Kind: v.Verdict.Kind, Msg: v.Verdict.Msg, Site: v.Verdict.Site, Job: jc.Job.Name, Choices: v.Choices, Bound: boundStr})
	}
}

// ---- registry ----

type propDef struct {
	ID   string
	Jobs func(tier string) []Job
	// Level for the evidence file.
	Level string
	Rule  string
	Notes []string // assumptions
}

var props = map[string]*propDef{}

func register(p *propDef) { props[p.ID] = p }

func propIDs() []string {
	var ids []string
	for id := range props {
		ids = append(ids, id)
	}
	sort.Strings(ids)
	return ids
}

func fatalf(format string, a ...interface{}) {
	fmt.Fprintf(os.Stderr, "ERROR: "+format+"\n", a...)
	fmt.Printf("ERROR: "+format+"\n", a...)
	os.Exit(2)
}

func timeUp(jc *JobCtx) bool { return !jc.Deadline.IsZero() && time.Now().After(jc.Deadline) }

// jobsFor returns the job list of a property and tier. The thorough tier starts with every job of the
// quick tier (so that its coverage is complete even if the wall-clock cap ends the deeper jobs early)
// followed by the thorough-only jobs.
func jobsFor(p *propDef, tier string) []Job {
	if tier != "thorough" {
		return p.Jobs(tier)
	}
	jobs := p.Jobs("quick")
	seen := map[string]bool{}
	for _, j := range jobs {
		seen[j.Name] = true
	}
	for _, j := range p.Jobs("thorough") {
		if !seen[j.Name] {
			seen[j.Name] = true
			jobs = append(jobs, j)
		}
	}
	return jobs
}
