package main

// C03: concurrent writers (one per goroutine) are linearizable w.r.t. the set semantics.

import (
	"fmt"
	"strings"

	"github.com/couchbase/nitro/zzverif/vrt"
)

type wOp struct {
	kind byte // P put, D delete, G getnode
	k, v string
}

func (o wOp) String() string {
	if o.kind == 'P' {
		return fmt.Sprintf("P%s%s", o.k, o.v)
	}
	return fmt.Sprintf("%c%s", o.kind, o.k)
}

type wDriver struct {
	cfg     nCfg
	pre     string // absent | old | cur | dead | gone
	threads [][]wOp
	rev     bool // start the harness threads in reverse order
	fine    bool // plain stores to shared memory are scheduling points too
}

func (d wDriver) name() string {
	var ts []string
	for _, t := range d.threads {
		var os []string
		for _, o := range t {
			os = append(os, o.String())
		}
		ts = append(ts, strings.Join(os, ","))
	}
	r := ""
	if d.rev {
		r = "/rev"
	}
	if d.fine {
		r += "/fine"
	}
	return fmt.Sprintf("%s/pre=%s/%s%s", d.cfg, d.pre, strings.Join(ts, "|"), r)
}

var wPre = []string{"absent", "old", "cur", "dead", "gone"}

func wDrivers(tier string) []wDriver {
	P := func(k, v string) wOp { return wOp{'P', k, v} }
	D := func(k string) wOp { return wOp{'D', k, ""} }
	G := func(k string) wOp { return wOp{'G', k, ""} }
	pairs := [][][]wOp{
		{{P("a", "1")}, {P("a", "2")}},
		{{P("a", "1")}, {D("a")}},
		{{P("a", "1")}, {G("a")}},
		{{D("a")}, {D("a")}},
		{{D("a")}, {G("a")}},
		{{P("a", "1"), D("a")}, {P("a", "2")}},
		{{D("a"), P("a", "1")}, {D("a")}},
		{{P("a", "1"), D("a")}, {D("a"), P("a", "2")}},
		{{D("a"), P("a", "1")}, {G("a"), G("a")}},
		{{P("a", "1"), P("b", "1")}, {P("b", "2"), P("a", "2")}},
		{{D("a"), P("a", "2")}, {P("a", "1")}},
		{{D("a"), D("a")}, {P("a", "2"), G("a")}},
	}
	triples := [][][]wOp{
		{{P("a", "1")}, {P("a", "2")}, {D("a")}},
		{{D("a")}, {D("a")}, {P("a", "2")}},
		{{P("a", "1")}, {D("a")}, {G("a")}},
	}
	var out []wDriver
	for _, cmp := range []string{"default", "kv"} {
		cfg := nCfg{cmp: cmp}
		for _, pre := range wPre {
			for _, ts := range pairs {
				cfg.writers = len(ts)
				out = append(out, wDriver{cfg: cfg, pre: pre, threads: ts})
				if len(ts[0]) == 1 && len(ts[1]) == 1 {
					out = append(out, wDriver{cfg: cfg, pre: pre, threads: ts, rev: true})
					// the same races with plain stores (deadSn, link fields, writer-local counters) as scheduling points
					out = append(out, wDriver{cfg: cfg, pre: pre, threads: ts, fine: true})
				}
			}
			for _, ts := range triples {
				cfg.writers = 3
				out = append(out, wDriver{cfg: cfg, pre: pre, threads: ts})
			}
		}
	}
	return out
}

// wSetup brings key a into the requested pre-state through writer 0 and returns the model state.
func wSetup(e *nEnv, pre string) map[string]string {
	st := map[string]string{}
	a1 := e.cfg.itemBytes("a", "1")
	switch pre {
	case "old":
		e.put(0, a1)
		s, _ := e.db.NewSnapshot()
		e.snaps = append(e.snaps, &openSnap{s: s})
		st["a"] = string(a1)
	case "cur":
		e.put(0, a1)
		st["a"] = string(a1)
	case "dead":
		e.put(0, a1)
		s, _ := e.db.NewSnapshot()
		e.snaps = append(e.snaps, &openSnap{s: s}) // keeps the dead version physically present
		e.ws[0].Delete(a1)
	case "gone":
		e.put(0, a1)
		e.ws[0].Delete(a1)
	}
	return st
}

func stStr(m map[string]string) string { return m["a"] + "|" + m["b"] }

func stParse(s string) map[string]string {
	p := strings.SplitN(s, "|", 2)
	m := map[string]string{}
	if p[0] != "" {
		m["a"] = p[0]
	}
	if len(p) > 1 && p[1] != "" {
		m["b"] = p[1]
	}
	return m
}

func runWDriver(jc *JobCtx, d wDriver, model vrt.CostModel, bound int) {
	var outcome string
	body := func() {
		outcome = ""
		e := newNEnv(d.cfg)
		vrt.NoBranch(true)
		init := wSetup(e, d.pre)
		vrt.WaitIdle()
		var hist []linOp
		results := make([][]string, len(d.threads))
		var ths []*vrt.Thread
		order := make([]int, len(d.threads))
		for i := range order {
			order[i] = i
			if d.rev {
				order[i] = len(d.threads) - 1 - i
			}
		}
		for _, ti := range order {
			ti := ti
			prog := d.threads[ti]
			ths = append(ths, vrt.GoNamed(fmt.Sprintf("W%d", ti), func() {
				w := e.ws[ti]
				for _, op := range prog {
					op := op
					v := op.v
					if e.cfg.cmp != "kv" {
						v = "1" // the whole item is the key: both writers use the same bytes
					}
					bs := e.cfg.itemBytes(op.k, v)
					call := vrt.Fence()
					var ok bool
					switch op.kind {
					case 'P':
						e.levels[ti] = levelOf(bs, 1)
						ok = w.Put2(bs) != nil
					case 'D':
						ok = w.Delete(e.cfg.itemBytes(op.k, "1"))
					case 'G':
						ok = w.GetNode(e.cfg.itemBytes(op.k, "1")) != nil
					}
					ret := vrt.Fence()
					results[ti] = append(results[ti], fmt.Sprintf("%s=%v", op, ok))
					hist = append(hist, linOp{Call: call, Ret: ret, Thread: ti, Desc: fmt.Sprintf("W%d:%s=%v@[%d,%d]", ti, op, ok, call, ret),
						Apply: func(st string) (string, bool) {
							m := stParse(st)
							// model keys are the comparator keys; map slot by the driver's key letter
							_, present := m[op.k]
							switch op.kind {
							case 'P':
								if !present {
									m[op.k] = string(bs)
									return stStr(m), ok
								}
								return st, !ok
							case 'D':
								if present {
									delete(m, op.k)
									return stStr(m), ok
								}
								return st, !ok
							default:
								return st, ok == present
							}
						}})
				}
			}))
		}
		vrt.FineMode = d.fine
		vrt.NoBranch(false)
		vrt.Join(ths...)
		vrt.NoBranch(true)
		vrt.FineMode = false
		vrt.WaitIdle()
		call := vrt.Fence()
		s, err := e.db.NewSnapshot()
		if err != nil {
			vrt.Fail("set-semantics", "NewSnapshot: "+err.Error())
		}
		scan, p := scanSnap(s)
		if p != "" {
			vrt.Fail("not-linearizable", p)
		}
		cnt, ic := s.Count(), e.db.ItemsCount()
		ret := vrt.Fence()
		hist = append(hist, linOp{Call: call, Ret: ret, Thread: -1, Desc: fmt.Sprintf("snapshot=%s count=%d items=%d", showAll(scan), cnt, ic),
			Apply: func(st string) (string, bool) {
				m := stParse(st)
				var want []string
				for _, k := range []string{"a", "b"} {
					if v, ok := m[k]; ok {
						want = append(want, v)
					}
				}
				return st, fmt.Sprint(want) == fmt.Sprint(scan) && cnt == int64(len(want)) && ic == int64(len(want))
			}})
		var rs []string
		for _, r := range results {
			rs = append(rs, strings.Join(r, ","))
		}
		outcome = strings.Join(rs, "|") + " snap=" + showAll(scan)
		if ok, _ := linearizable(hist, stStr(init)); !ok {
			vrt.Fail("not-linearizable", "no linearization w.r.t. the keyed-set model: "+histString(hist))
		}
		s.Close()
		for _, os := range e.snaps {
			os.s.Close()
		}
		vrt.WaitIdle()
		e.db.Close()
	}
	jc.Sched(SchedOpts{Model: model, Bound: bound, Outcome: func(r *vrt.Result) string { return outcome }}, body, nil)
}

func c03Jobs(tier string) []Job {
	var jobs []Job
	for di, d := range wDrivers(tier) {
		d := d
		delay := 3
		if tier == "thorough" {
			delay = 4
		}
		jobs = append(jobs, Job{Name: fmt.Sprintf("C03/%s/delay%d", d.name(), delay), Run: func(jc *JobCtx) { runWDriver(jc, d, vrt.CostDelay, delay) }})
		nops := 0
		for _, t := range d.threads {
			nops += len(t)
		}
		// preemption bound 1 on the single-op pairs (a subset in quick)
		_ = di
		if nops == 2 && !d.rev {
			jobs = append(jobs, Job{Name: fmt.Sprintf("C03/%s/preempt1", d.name()), Shards: 4, Run: func(jc *JobCtx) { runWDriver(jc, d, vrt.CostPreempt, 1) }})
			if tier == "thorough" {
				jobs = append(jobs, Job{Name: fmt.Sprintf("C03/%s/preempt2", d.name()), Shards: 16, Run: func(jc *JobCtx) { runWDriver(jc, d, vrt.CostPreempt, 2) }})
			}
		} else if nops <= 4 && len(d.threads) == 2 && tier == "thorough" {
			jobs = append(jobs, Job{Name: fmt.Sprintf("C03/%s/preempt1", d.name()), Shards: 8, Run: func(jc *JobCtx) { runWDriver(jc, d, vrt.CostPreempt, 1) }})
		}
	}
	return jobs
}

func init() {
	register(&propDef{ID: "C03", Jobs: c03Jobs,
		Rule:  "closed drivers with one writer per thread (2-3 threads, 1-2 ops each over {Put(k,v), Delete(k), GetNode(k)}) on colliding keys, from 5 pre-states of the contended key (absent / live from an earlier epoch / live from the current epoch / dead version still physically present / deleted earlier in this epoch), default and key-only comparators; all schedules (writers + their GC workers) within delay bound 3 (quick) / 4 (thorough) and preemption bound 1 (quick: single-op pairs) / 2 (thorough); the call/return history plus the snapshot taken after quiescence (scan, Count, ItemsCount) must be linearizable w.r.t. the keyed-set model; non-trivial = schedules deviating from the default with a context switch",
		Notes: []string{"with the default comparator the key is the whole item, so all writers use identical bytes per key; with CompareKV they use equal keys and different values", "Go-managed memory (reclamation is C04's subject)"}})
}
