// vharness: model-checking harness for couchbase/nitro. Built by /verif/bin/vcheck with
// `go build -overlay` against the instrumented copy of /repo's current working tree.
//
//	vharness check  <ID> [--tier quick|thorough] [--jobs regex] [--workers N]
//	vharness worker <ID> <tier>              (internal: reads tasks on stdin)
//	vharness replay <file> [--trace]
//	vharness list   <ID> [--tier T]
package main

import (
	"bufio"
	"encoding/json"
	"fmt"
	"os"
	"regexp"
	"runtime"
	"runtime/debug"
	"runtime/pprof"
	"strconv"
	"strings"
	"sync/atomic"
	"syscall"
	"time"

	"github.com/couchbase/nitro/zzverif/vrt"
)

var verifDir = "/verif"

func main() {
	if d := os.Getenv("VERIF_DIR"); d != "" {
		verifDir = d
	}
	if len(os.Args) < 2 {
		fatalf("usage: vharness check|worker|replay|list ...")
	}
	switch os.Args[1] {
	case "check":
		os.Exit(cmdCheck(os.Args[2:]))
	case "worker":
		cmdWorker(os.Args[2:])
	case "replay":
		os.Exit(cmdReplay(os.Args[2:]))
	case "selftest":
		os.Exit(cmdSelftest())
	case "list":
		id, tier, _, _ := parseArgs(os.Args[2:])
		p := props[id]
		if p == nil {
			fatalf("unknown property %s", id)
		}
		for i, j := range jobsFor(p, tier) {
			fmt.Printf("%d\t%s\tshards=%d\n", i, j.Name, j.Shards)
		}
	default:
		fatalf("unknown command %s", os.Args[1])
	}
}

func parseArgs(args []string) (id, tier, jobsRe string, workers int) {
	tier = os.Getenv("VERIF_TIER")
	if tier == "" {
		tier = "quick"
	}
	workers = runtime.NumCPU()
	for i := 0; i < len(args); i++ {
		switch args[i] {
		case "--tier":
			i++
			tier = args[i]
		case "--jobs":
			i++
			jobsRe = args[i]
		case "--workers":
			i++
			workers, _ = strconv.Atoi(args[i])
		default:
			if id == "" {
				id = args[i]
			}
		}
	}
	if tier != "quick" && tier != "thorough" {
		fatalf("bad tier %q", tier)
	}
	return
}

// ---- worker ----

type task struct {
	Job      int   `json:"job"`
	Shard    int   `json:"shard"`
	NShard   int   `json:"nshard"`
	Deadline int64 `json:"deadline_unix_ms"`
}

func cmdWorker(args []string) {
	id, tier := args[0], args[1]
	p := props[id]
	if p == nil {
		fatalf("unknown property %s", id)
	}
	runtime.GOMAXPROCS(1)
	debug.SetGCPercent(400)
	if pf := os.Getenv("VERIF_PROF"); pf != "" {
		f, _ := os.Create(pf)
		pprof.StartCPUProfile(f)
		defer pprof.StopCPUProfile()
	}
	jobs := jobsFor(p, tier)
	in := bufio.NewReaderSize(os.Stdin, 1<<16)
	out := bufio.NewWriter(os.Stdout)
	for {
		line, err := in.ReadString('\n')
		if err != nil {
			return
		}
		var t task
		if json.Unmarshal([]byte(line), &t) != nil {
			continue
		}
		stop := watchdog(&jobs[t.Job], t.Shard, out)
		rep := runJob(id, tier, &jobs[t.Job], t.Shard, t.NShard, time.UnixMilli(t.Deadline), nil, false)
		close(stop)
		bs, _ := json.Marshal(rep)
		out.Write(bs)
		out.WriteByte('\n')
		out.Flush()
	}
}

// watchdog reports an execution that stops reaching scheduling points (a loop without any
// synchronisation operation cannot be preempted or bounded by the step horizon): after 90 s of CPU time
// consumed without a scheduling point while an execution is active it emits a report carrying the violation and
// the choices made so far, and ends the worker process.
func cpuSeconds() float64 {
	var ru syscall.Rusage
	if syscall.Getrusage(syscall.RUSAGE_SELF, &ru) != nil {
		return 0
	}
	return float64(ru.Utime.Sec+ru.Stime.Sec) + float64(ru.Utime.Usec+ru.Stime.Usec)/1e6
}

func watchdog(j *Job, shard int, out *bufio.Writer) chan struct{} {
	stop := make(chan struct{})
	go func() {
		last := atomic.LoadUint64(&vrt.Heartbeat)
		cpu0 := cpuSeconds()
		for {
			select {
			case <-stop:
				return
			case <-time.After(5 * time.Second):
			}
			hb := atomic.LoadUint64(&vrt.Heartbeat)
			if hb != last || vrt.X == nil {
				last, cpu0 = hb, cpuSeconds()
				continue
			}
			// measured in CPU time of this process, not wall time: a worker starved by a loaded machine
			// does not accumulate CPU, a thread spinning without synchronisation does
			if cpuSeconds()-cpu0 >= 90 {
				rep := newReport(j.Name, shard)
				rep.Exhaustive = false
				rep.CapHit = "watchdog"
				rep.violate(Viol{Kind: "hang", Msg: "an execution consumed 90 s of CPU without reaching a scheduling point: a thread is looping without any synchronisation operation", Site: "no scheduling point", Job: j.Name, Choices: vrt.SnapshotChoices()})
				bs, _ := json.Marshal(rep)
				out.Write(bs)
				out.WriteByte('\n')
				out.Flush()
				os.Exit(3)
			}
		}
	}()
	return stop
}

func runJob(id, tier string, j *Job, shard, nshard int, deadline time.Time, replay []int, trace bool) (rep *Report) {
	rep = newReport(j.Name, shard)
	jc := &JobCtx{Prop: id, Tier: tier, Job: j, Shard: shard, NShard: nshard, Deadline: deadline, Rep: rep}
	if replay != nil {
		jc.Replay = true
		jc.ReplayChois = replay
		jc.ReplayTrace = trace
	}
	t0 := time.Now()
	func() {
		defer func() {
			if r := recover(); r != nil {
				rep.Error = fmt.Sprintf("harness panic in job %s: %v\n%s", j.Name, r, debug.Stack())
			}
		}()
		j.Run(jc)
	}()
	rep.WallMs = time.Since(t0).Milliseconds()
	return rep
}

// ---- replay ----

type replayFile struct {
	Property string `json:"property"`
	Tier     string `json:"tier"`
	Viol     Viol   `json:"violation"`
	Note     string `json:"note,omitempty"`
}

func findJob(id, tier, name string) *Job {
	p := props[id]
	if p == nil {
		return nil
	}
	for _, t := range []string{tier, "quick", "thorough"} {
		jobs := jobsFor(p, t)
		for i := range jobs {
			if jobs[i].Name == name {
				return &jobs[i]
			}
		}
	}
	return nil
}

func cmdReplay(args []string) int {
	trace := false
	quiet := false
	var file string
	for _, a := range args {
		switch a {
		case "--trace":
			trace = true
		case "--quiet":
			quiet = true
		default:
			file = a
		}
	}
	bs, err := os.ReadFile(file)
	if err != nil {
		fatalf("replay: %v", err)
	}
	var rf replayFile
	if err := json.Unmarshal(bs, &rf); err != nil {
		fatalf("replay: %v", err)
	}
	j := findJob(rf.Property, rf.Tier, rf.Viol.Job)
	if j == nil {
		fatalf("replay: job %q of %s not found", rf.Viol.Job, rf.Property)
	}
	runtime.GOMAXPROCS(1)
	choices := rf.Viol.Choices
	if choices == nil {
		choices = []int{}
	}
	rep := runJob(rf.Property, rf.Tier, j, 0, 1, time.Time{}, choices, trace)
	if rep.Error != "" {
		fmt.Println("ERROR:", rep.Error)
		return 2
	}
	if len(rep.Violations) == 0 {
		if !quiet {
			fmt.Println("replay: no violation reproduced")
		}
		return 0
	}
	v := rep.Violations[0]
	if !quiet {
		fmt.Printf("replay: VIOLATION reproduced: property=%s job=%s\n  kind=%s site=%s\n  %s\n", rf.Property, v.Job, v.Kind, v.Site, v.Msg)
	} else {
		fmt.Println(v.Sig())
	}
	return 1
}

func matchJobs(jobs []Job, re string) []int {
	var idx []int
	var rx *regexp.Regexp
	if re != "" {
		rx = regexp.MustCompile(re)
	}
	for i := range jobs {
		if rx == nil || rx.MatchString(jobs[i].Name) {
			idx = append(idx, i)
		}
	}
	return idx
}

func firstLine(s string) string {
	if i := strings.IndexByte(s, '\n'); i >= 0 {
		return s[:i]
	}
	return s
}
