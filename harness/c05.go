package main

// C05: backup and restore reproduce the stored snapshot exactly.
// History part: at every state of the history exploration, every open snapshot (latest or
// older, with other versions of its keys physically present) is stored with the real
// StoreToDisk into the in-memory file system and restored into a fresh instance, for
// NumCPU (shard count) in {1,2,3} x store concurrency {1,2} x load concurrency {1,2},
// with and without delta interleaving; the restored instance is then driven by a short
// continuation against the reference model. Concurrent part: StoreToDisk with delta
// interleaving against snapshot churn and a writer.

import (
	"fmt"
	"strings"

	"github.com/couchbase/nitro"
	vos "github.com/couchbase/nitro/zzverif/os"
	vruntime "github.com/couchbase/nitro/zzverif/runtime"
	"github.com/couchbase/nitro/zzverif/vrt"
)

// continuation scripts on a restored instance: each op is checked against a fresh model seeded with the content
var contScripts = [][]nOp{
	{{kind: "put", k: "a", v: "1"}, {kind: "put", k: "n", v: "1"}, {kind: "snap"}, {kind: "del", k: "a", v: "1"}, {kind: "get", k: "b", v: "1"}, {kind: "snap"}},
	{{kind: "del", k: "b", v: "1"}, {kind: "put", k: "b", v: "2"}, {kind: "get", k: "b", v: "2"}, {kind: "snap"}, {kind: "del", k: "b", v: "2"}, {kind: "snap"}},
	{{kind: "get", k: "a", v: "2"}, {kind: "put", k: "a", v: "2"}, {kind: "del", k: "c", v: "1"}, {kind: "snap"}},
}

// checkRestored drives the restored instance with a continuation and compares with the model.
func checkRestored(cfg nCfg, r *restored, script []nOp) string {
	m := newModel(cfg)
	for _, bs := range r.content {
		m.Put(bs)
	}
	m.sn = 2 // LoadFromDisk took snapshot 1
	for _, v := range m.vers {
		v.born = 0 // restored items predate every epoch of the new instance
	}
	w := r.db.NewWriter()
	e2 := &nEnv{cfg: cfg, db: r.db, m: m}
	e2.ws = append(e2.ws, w)
	e2.levels = []int{0}
	sc := &seqCfg{prop: "C02"}
	for i, op := range script {
		op.w = 0
		if p := e2.apply(op, sc); p != "" {
			return fmt.Sprintf("restored instance, continuation step %d: %s", i+1, p)
		}
	}
	for _, s := range e2.snaps {
		s.s.Close()
	}
	return ""
}

func c05Check(prop string, ncpus, storeConcs, loadConcs []int) func(e *nEnv, jc *JobCtx, fail func(kind, msg string)) {
	return func(e *nEnv, jc *JobCtx, fail func(kind, msg string)) {
		n := 0
		for _, s := range e.snaps {
			if s.closed {
				continue
			}
			for _, ncpu := range ncpus {
				for _, sc := range storeConcs {
					for _, lc := range loadConcs {
						n++
						vruntime.CPUs = ncpu
						if n%2 == 0 {
							nitro.VerifSetRefreshRate(e.db, 1) // the backup scan refreshes its accessor token after every item
						} else {
							nitro.VerifSetRefreshRate(e.db, 10000)
						}
						liveBefore := 0
						if e.ga != nil {
							liveBefore, _ = e.ga.Live()
						}
						fs := resetFS()
						if !s.s.Open() {
							fail("backup", "Open failed on an open snapshot")
						}
						err := e.db.StoreToDisk(backupDir, s.s, sc, nil)
						vrt.WaitIdle()
						desc := fmt.Sprintf("snapshot epoch %d content %s stored with %d shards, concurrency %d, loaded with concurrency %d (files: %s)", s.sn, showAll(s.content), ncpu, sc, lc, fsSummary(fs))
						if err != nil {
							jc.Rep.Extra["store_errors"]++
							continue // the property speaks about successful backups
						}
						jc.Rep.Extra["backups_restored"]++
						r := loadBackup(e.cfg, e.ga, lc)
						if r.err != nil {
							fail("backup", fmt.Sprintf("StoreToDisk succeeded but LoadFromDisk failed: %v; %s", r.err, desc))
						}
						if fmt.Sprint(r.content) != fmt.Sprint(s.content) || r.count != int64(len(s.content)) {
							fail("backup", fmt.Sprintf("restored snapshot holds %s (Count=%d); %s", showAll(r.content), r.count, desc))
						}
						if prop == "C05" {
							if p := checkRestored(e.cfg, r, contScripts[n%len(contScripts)]); p != "" {
								fail("backup", p+"; "+desc)
							}
						}
						r.snap.Close()
						r.snap = nil
						vrt.WaitIdle()
						r.db.Close()
						vos.FS = nil
						if prop == "C07" && e.ga != nil {
							if after, d := e.ga.Live(); after != liveBefore {
								fail("leak", fmt.Sprintf("an instance populated by LoadFromDisk was closed but %d of its blocks were never returned to the allocator (%d live before the restore, %d after Close); %s; live blocks: %s", after-liveBefore, liveBefore, after, desc, d))
							}
						}
					}
				}
			}
		}
		vruntime.CPUs = 2
	}
}

func c05Jobs(tier string) []Job {
	hd := 2
	if tier == "thorough" {
		hd = 3
	}
	var cfgs []seqCfg
	mk := func(c nCfg, policy string, ncpus, scs, lcs []int) seqCfg {
		return seqCfg{nCfg: c, policy: policy, depth: hd, maxSnaps: 3, init: "abc", keys: []string{"a", "b", "c"}, check: c05Check("C05", ncpus, scs, lcs)}
	}
	all := []int{1, 2, 3}
	two := []int{1, 2}
	cfgs = append(cfgs, mk(nCfg{cmp: "default", writers: 2}, "drain", all, two, two))
	cfgs = append(cfgs, mk(nCfg{cmp: "default", writers: 2, delta: true}, "drain", all, two, two))
	cfgs = append(cfgs, mk(nCfg{cmp: "kv", writers: 2}, "drain", []int{2}, two, []int{1}))
	cfgs = append(cfgs, mk(nCfg{cmp: "default", writers: 2, mm: true}, "drain", []int{2}, []int{1}, two))
	// one level deeper with a single (shards, concurrency) combination
	hd++
	cfgs = append(cfgs, mk(nCfg{cmp: "default", writers: 2}, "starve", []int{2}, []int{1}, []int{1}))
	cfgs = append(cfgs, mk(nCfg{cmp: "default", writers: 2, delta: true}, "starve", []int{3}, []int{2}, []int{1}))
	hd--
	if tier == "thorough" {
		cfgs = append(cfgs, mk(nCfg{cmp: "default", writers: 2, mm: true, delta: true}, "drain", all, two, two))
		cfgs = append(cfgs, mk(nCfg{cmp: "kv", writers: 2, delta: true}, "starve", all, two, two))
		cfgs = append(cfgs, mk(nCfg{cmp: "default", writers: 2}, "starve", all, two, two))
	}
	jobs := seqJobs("C05", tier, cfgs)
	return append(jobs, c05ConcJobs(tier)...)
}

func init() {
	register(&propDef{ID: "C05", Jobs: c05Jobs,
		Rule:  "histories: at every state of the history exploration (3 keys, deletes / re-inserts / snapshots up to the depth from a populated database), every open snapshot (latest or older) is stored by the real StoreToDisk into the in-memory file system with shard count {1,2,3} x store concurrency {1,2} and restored into a fresh instance with load concurrency {1,2}, with and without delta interleaving, both memory modes, default and key-only comparators; the restored scan and Count must equal the snapshot's reference content, and a continuation (Put / Delete / GetNode / NewSnapshot) on the restored instance must agree with the model; schedules: StoreToDisk with delta interleaving against snapshot churn and a writer within the delay bound; counters.backups_restored counts the store+load pairs; non-trivial = distinct history states / deviating schedules",
		Notes: []string{"items are non-empty", "StoreToDisk / LoadFromDisk worker goroutines run under the default schedule in the history jobs"}})
}

var _ = strings.Join
var _ = nitro.DiskBlockSize

func c05ConcJobs(tier string) []Job { return concJobs("C05", tier) }
