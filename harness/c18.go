package main

// C18: bulk builder and merge iterator are lossless and order-preserving.

import (
	"fmt"
	"sort"
	"strings"
	"unsafe"

	"github.com/couchbase/nitro/skiplist"
	"github.com/couchbase/nitro/zzverif/rand"
	"github.com/couchbase/nitro/zzverif/vrt"
)

// ---- builder ----

type bShape []int // items per segment

func bShapes() []bShape {
	var out []bShape
	for k := 1; k <= 3; k++ {
		n := 1
		for i := 0; i < k; i++ {
			n *= 3
		}
		for x := 0; x < n; x++ {
			s := make(bShape, k)
			y := x
			for i := 0; i < k; i++ {
				s[i] = y % 3
				y /= 3
			}
			out = append(out, s)
		}
	}
	return out
}

func (s bShape) total() int {
	t := 0
	for _, c := range s {
		t += c
	}
	return t
}

func (s bShape) String() string {
	var p []string
	for _, c := range s {
		p = append(p, fmt.Sprint(c))
	}
	return strings.Join(p, "-")
}

// continuation ops on the assembled list
type bCont struct {
	kind byte // I, D, L
	key  int
}

func (c bCont) String() string { return fmt.Sprintf("%c%d", c.kind, c.key) }

func bConts(n int) []bCont {
	keys := []int{5}
	for i := 1; i <= n; i++ {
		keys = append(keys, i*10)
	}
	if n >= 1 {
		keys = append(keys, 15)
	}
	keys = append(keys, n*10+5)
	var out []bCont
	for _, k := range keys {
		for _, kind := range []byte{'I', 'D', 'L'} {
			out = append(out, bCont{kind, k})
		}
	}
	return out
}

func scanInts(s *skiplist.Skiplist) []int {
	buf := s.MakeBuf()
	it := s.NewIterator(skiplist.CompareInt, buf)
	defer it.Close()
	var out []int
	for it.SeekFirst(); it.Valid(); it.Next() {
		out = append(out, skiplist.IntFromItem(it.Get()))
		if len(out) > 1000 {
			break
		}
	}
	return out
}

// buildAndCheck builds the list for (shape, levels) — one thread per segment under the scheduler if
// conc — checks content / structure / statistics, applies the continuation and checks again.
// It returns a problem description or "". Must run inside vrt.Run when conc is set.
func buildAndCheck(shape bShape, levels []int, mm bool, conc bool, cont []bCont) string {
	var ga *GuardAlloc
	var keep []unsafe.Pointer
	cfg := skiplist.DefaultConfig()
	if mm {
		ga = gaFresh()
		cfg.UseMemoryMgmt = true
		cfg.Malloc = ga.Malloc
		cfg.Free = ga.Free
		cfg.BarrierDestructor = func(unsafe.Pointer) {}
		if vrt.X != nil {
			vrt.AccessHook = ga.Access
		}
	}
	rand.ResetGlobal()
	// scripted levels per segment (generator ids are creation indexes: segment i has id i)
	perSeg := make([][]int, len(shape))
	li := 0
	for si, c := range shape {
		for j := 0; j < c; j++ {
			perSeg[si] = append(perSeg[si], levels[li])
			li++
		}
	}
	pos := make([]int, len(shape))
	rand.NextLevel = func(id int) int {
		if id < 0 || id >= len(perSeg) || pos[id] >= len(perSeg[id]) {
			return 1 // continuation inserts
		}
		l := perSeg[id][pos[id]]
		pos[id]++
		return l
	}
	b := skiplist.NewBuilderWithConfig(cfg)
	b.SetItemSizeFunc(func(unsafe.Pointer) int { return slItemSize })
	segs := make([]*skiplist.Segment, len(shape))
	for i := range shape {
		segs[i] = b.NewSegment()
	}
	var want []int
	key := 0
	segKeys := make([][]int, len(shape))
	for si, c := range shape {
		for j := 0; j < c; j++ {
			key += 10
			segKeys[si] = append(segKeys[si], key)
			want = append(want, key)
		}
	}
	fill := func(si int) {
		for _, k := range segKeys[si] {
			p := skiplist.NewIntKeyItem(k)
			keep = append(keep, p)
			segs[si].Add(p)
		}
	}
	if conc {
		var ths []*vrt.Thread
		for si := range shape {
			si := si
			ths = append(ths, vrt.GoNamed(fmt.Sprintf("S%d", si), func() { fill(si) }))
		}
		vrt.Join(ths...)
		vrt.NoBranch(true)
	} else {
		for si := range shape {
			fill(si)
		}
	}
	s := b.Assemble(segs...)
	check := func(stage string, want []int, allocs int) string {
		got := scanInts(s)
		if fmt.Sprint(got) != fmt.Sprint(want) {
			return fmt.Sprintf("%s: scan yields %v, expected %v", stage, got, want)
		}
		wi, p := walkSkiplist(s, skiplist.CompareInt)
		if p != "" {
			return stage + ": " + p
		}
		if p := reconcileStats(s, &wi); p != "" {
			return stage + ": " + p
		}
		st := s.GetStats()
		if st.NodeAllocs != int64(allocs) {
			return fmt.Sprintf("%s: NodeAllocs=%d, %d nodes were added", stage, st.NodeAllocs, allocs)
		}
		return ""
	}
	if p := check("after Assemble", want, len(want)); p != "" {
		return p
	}
	// continuation: later operations behave like on an incrementally built list
	model := map[int]bool{}
	for _, k := range want {
		model[k] = true
	}
	allocs := len(want)
	buf := s.MakeBuf()
	for ci, c := range cont {
		p := skiplist.NewIntKeyItem(c.key)
		keep = append(keep, p)
		var got, exp bool
		switch c.kind {
		case 'I':
			got = s.Insert(p, skiplist.CompareInt, buf, &s.Stats)
			exp = !model[c.key]
			if exp {
				allocs++
			}
			model[c.key] = true
		case 'D':
			got = s.Delete(p, skiplist.CompareInt, buf, &s.Stats)
			exp = model[c.key]
			delete(model, c.key)
		case 'L':
			_, _, got = s.Lookup(p, skiplist.CompareInt, buf, &s.Stats)
			exp = model[c.key]
		}
		if got != exp {
			return fmt.Sprintf("continuation step %d %s returned %v, an incrementally built list returns %v", ci+1, c, got, exp)
		}
		var w2 []int
		for k := range model {
			w2 = append(w2, k)
		}
		sort.Ints(w2)
		if p := check(fmt.Sprintf("after continuation step %d %s", ci+1, c), w2, allocs); p != "" {
			return p
		}
	}
	_ = keep
	return ""
}

func levelsOf(x, n int) []int {
	l := make([]int, n)
	for i := 0; i < n; i++ {
		l[i] = x % 3
		x /= 3
	}
	return l
}

func pow3(n int) int {
	p := 1
	for i := 0; i < n; i++ {
		p *= 3
	}
	return p
}

// choices for replay: [levelsIndex, cont0, cont1...] (cont index -1 absent)
func runBuilderSeq(jc *JobCtx, shape bShape, mm bool, contLen int) {
	rep := jc.Rep
	n := shape.total()
	conts := bConts(n)
	one := func(lx int, ci []int) {
		var cont []bCont
		for _, c := range ci {
			cont = append(cont, conts[c])
		}
		rep.Executions++
		rep.Transitions += int64(n + len(cont) + 1)
		var p string
		func() {
			defer func() {
				if r := recover(); r != nil {
					p = fmt.Sprintf("panic: %v", r)
				}
			}()
			p = buildAndCheck(shape, levelsOf(lx, n), mm, false, cont)
		}()
		if p != "" {
			rep.violate(Viol{Kind: "builder", Msg: fmt.Sprintf("segments %s levels %v cont %v: %s", shape, levelsOf(lx, n), cont, p), Site: "builder.go", Job: jc.Job.Name, Choices: append([]int{lx}, ci...)})
		}
	}
	if jc.Replay {
		one(jc.ReplayChois[0], jc.ReplayChois[1:])
		return
	}
	for lx := 0; lx < pow3(n); lx++ {
		one(lx, nil)
		rep.Nontrivial++
		for c1 := range conts {
			one(lx, []int{c1})
			if contLen >= 2 {
				for c2 := range conts {
					one(lx, []int{c1, c2})
				}
			}
		}
	}
	rep.Nodes = rep.Executions
	rep.Bound = fmt.Sprintf("levels {0,1,2}^%d, continuations <=%d", n, contLen)
	rep.sample(fmt.Sprintf("segments with %s items (keys 10,20,..), every level assignment in {0,1,2}, every continuation of length <=%d over %v", shape, contLen, conts))
	rep.outcome("builder-ok")
}

func runBuilderConc(jc *JobCtx, shape bShape, levels []int, mm bool, bound int) {
	body := func() {
		p := buildAndCheck(shape, levels, mm, true, []bCont{{'I', 15}, {'D', 10}})
		if p != "" {
			vrt.Fail("builder", fmt.Sprintf("concurrent fill, segments %s levels %v: %s", shape, levels, p))
		}
	}
	jc.Sched(SchedOpts{Model: vrt.CostPreempt, Bound: bound, Outcome: func(r *vrt.Result) string { return "ok" }}, body, nil)
}

// ---- merge iterator ----

// family: list i holds the keys whose bit is set in masks[i] (keys 1..3)
func mergeRun(masks []int, ops []int) (problem string) {
	defer func() {
		if r := recover(); r != nil {
			problem = fmt.Sprintf("panic: %v", r)
		}
	}()
	rand.NextLevel = func(int) int { return 0 }
	var iters []*skiplist.Iterator
	var M []int
	var keep []unsafe.Pointer
	for _, m := range masks {
		s := skiplist.New()
		buf := s.MakeBuf()
		for k := 1; k <= 3; k++ {
			if m&(1<<uint(k-1)) != 0 {
				p := skiplist.NewIntKeyItem(k)
				keep = append(keep, p)
				s.Insert(p, skiplist.CompareInt, buf, &s.Stats)
				M = append(M, k)
			}
		}
		iters = append(iters, s.NewIterator(skiplist.CompareInt, s.MakeBuf()))
	}
	sort.Ints(M)
	mit := skiplist.NewMergeIterator(iters)
	pos := -1 // not positioned
	for i, op := range ops {
		name := ""
		switch {
		case op == 0:
			name = "SeekFirst"
			mit.SeekFirst()
			pos = 0
		case op <= 5:
			x := op - 1 // Seek(0..4)
			name = fmt.Sprintf("Seek(%d)", x)
			p := skiplist.NewIntKeyItem(x)
			keep = append(keep, p)
			found := mit.Seek(p)
			pos = sort.SearchInts(M, x)
			wantFound := pos < len(M) && M[pos] == x
			if found != wantFound {
				return fmt.Sprintf("step %d %s returned found=%v, expected %v", i+1, name, found, wantFound)
			}
		default:
			name = "Next"
			if pos < 0 || pos >= len(M) {
				return "" // Next is only defined on a valid iterator: sequence not in the alphabet
			}
			mit.Next()
			pos++
		}
		valid := mit.Valid()
		if valid != (pos < len(M)) {
			return fmt.Sprintf("step %d %s: Valid()=%v, model position %d of %v", i+1, name, valid, pos, M)
		}
		if valid {
			if got := skiplist.IntFromItem(mit.Get()); got != M[pos] {
				return fmt.Sprintf("step %d %s: Get()=%d, the sorted union %v has %d at position %d", i+1, name, got, M, M[pos], pos)
			}
		}
	}
	_ = keep
	return ""
}

func mergeOpsName(ops []int) string {
	var s []string
	for _, op := range ops {
		switch {
		case op == 0:
			s = append(s, "SeekFirst")
		case op <= 5:
			s = append(s, fmt.Sprintf("Seek(%d)", op-1))
		default:
			s = append(s, "Next")
		}
	}
	return strings.Join(s, ",")
}

func runMerger(jc *JobCtx, masks []int, depth int) {
	rep := jc.Rep
	if jc.Replay {
		if p := mergeRun(masks, jc.ReplayChois); p != "" {
			rep.violate(Viol{Kind: "merge-iterator", Msg: fmt.Sprintf("lists %v ops %s: %s", masks, mergeOpsName(jc.ReplayChois), p), Site: "merger.go", Job: jc.Job.Name, Choices: jc.ReplayChois})
		}
		rep.Executions++
		return
	}
	// every op sequence of exactly `depth` operations (each checked after every step); sequences that
	// call Next on an invalid iterator are cut at that point
	seq := make([]int, 0, depth)
	var rec func()
	rec = func() {
		if len(seq) == depth {
			rep.Executions++
			rep.Transitions += int64(depth)
			if p := mergeRun(masks, seq); p != "" {
				rep.violate(Viol{Kind: "merge-iterator", Msg: fmt.Sprintf("lists %v ops %s: %s", masks, mergeOpsName(seq), p), Site: "merger.go", Job: jc.Job.Name, Choices: append([]int{}, seq...)})
			}
			return
		}
		for op := 0; op <= 6; op++ {
			if len(seq) == 0 && op == 6 {
				continue
			}
			seq = append(seq, op)
			rec()
			seq = seq[:len(seq)-1]
		}
	}
	rec()
	rep.Nodes = rep.Executions
	rep.Nontrivial = rep.Executions
	rep.Bound = fmt.Sprintf("depth=%d", depth)
	rep.sample(fmt.Sprintf("merge of lists with key masks %v over {1,2,3}: every sequence of %d ops over {SeekFirst, Seek(0..4), Next}", masks, depth))
	rep.outcome("merger-ok")
}

// runBuilderTall: levels grow by at most one per added node, so reaching the maximum level needs a run of
// 33 nodes with increasing level requests; two segments so that the top levels cross a segment boundary.
func runBuilderTall(jc *JobCtx, mm bool) {
	rep := jc.Rep
	var p string
	func() {
		defer func() {
			if r := recover(); r != nil {
				p = fmt.Sprintf("panic: %v", r)
			}
		}()
		n := skiplist.MaxLevel + 3
		var levels []int
		for i := 0; i < n; i++ {
			l := i + 1
			if l > skiplist.MaxLevel {
				l = skiplist.MaxLevel
			}
			levels = append(levels, l)
		}
		p = buildAndCheck(bShape{n - 2, 2}, levels, mm, false, []bCont{{'I', 15}, {'D', 340}, {'L', 350}})
	}()
	rep.Executions++
	rep.Transitions += int64(skiplist.MaxLevel + 6)
	rep.Nodes++
	rep.Nontrivial++
	if p != "" {
		rep.violate(Viol{Kind: "builder", Msg: "segments with nodes of every height up to MaxLevel: " + p, Site: "builder.go", Job: jc.Job.Name, Choices: []int{0}})
	}
	rep.Bound = "heights 1..MaxLevel"
	rep.sample("two segments holding nodes of every height 1..32 (levels grow by one per added node)")
	rep.outcome("builder-ok")
}

func c18Jobs(tier string) []Job {
	var jobs []Job
	jobs = append(jobs, Job{Name: "C18/builder/go/tall", Run: func(jc *JobCtx) { runBuilderTall(jc, false) }})
	jobs = append(jobs, Job{Name: "C18/builder/mm/tall", Run: func(jc *JobCtx) { runBuilderTall(jc, true) }})
	contLen := 1
	if tier == "thorough" {
		contLen = 2
	}
	for _, sh := range bShapes() {
		sh := sh
		jobs = append(jobs, Job{Name: fmt.Sprintf("C18/builder/go/%s/cont%d", sh.String(), contLen), Run: func(jc *JobCtx) { runBuilderSeq(jc, sh, false, contLen) }})
		if tier == "thorough" || sh.total() <= 4 {
			jobs = append(jobs, Job{Name: fmt.Sprintf("C18/builder/mm/%s/cont%d", sh.String(), contLen), Run: func(jc *JobCtx) { runBuilderSeq(jc, sh, true, contLen) }})
		}
	}
	// concurrent fill: one thread per segment; the shared state is the list-level CAS in NewLevel
	concShapes := []bShape{{1, 1}, {2, 1}, {1, 2}, {2, 2}, {1, 1, 1}, {2, 0, 1}}
	for _, sh := range concShapes {
		sh := sh
		n := sh.total()
		for lx := 0; lx < pow3(n); lx++ {
			lv := levelsOf(lx, n)
			hi := 0
			for _, l := range lv {
				if l > 0 {
					hi++
				}
			}
			if hi < 2 {
				continue // at least two level draws must contend for the list level
			}
			if tier != "thorough" && n > 3 {
				continue
			}
			lv2 := lv
			bound := 2
			jobs = append(jobs, Job{Name: fmt.Sprintf("C18/builder-conc/%s/levels=%v", sh, lv2), Run: func(jc *JobCtx) { runBuilderConc(jc, sh, lv2, false, bound) }})
		}
	}
	depth := 4
	if tier == "thorough" {
		depth = 5
	}
	for k := 1; k <= 3; k++ {
		n := 1
		for i := 0; i < k; i++ {
			n *= 8
		}
		for x := 0; x < n; x++ {
			masks := make([]int, k)
			y := x
			for i := 0; i < k; i++ {
				masks[i] = y % 8
				y /= 8
			}
			// families are unordered for the oracle: keep canonical (non-decreasing) representatives in quick
			if tier != "thorough" && !sort.IntsAreSorted(masks) {
				continue
			}
			m := masks
			jobs = append(jobs, Job{Name: fmt.Sprintf("C18/merger/%v/depth%d", m, depth), Run: func(jc *JobCtx) { runMerger(jc, m, depth) }})
		}
	}
	return jobs
}

func init() {
	register(&propDef{ID: "C18", Jobs: c18Jobs,
		Rule:  "builder: every tuple of 1-3 segments with 0-2 ascending items each (empty segments leading, middle, trailing, all empty) x every level assignment in {0,1,2} x every continuation of length <=1 (quick) / <=2 (thorough) over Insert/Delete/Lookup of keys below, at, between and above the content, Go-managed and user-managed nodes, checked by scan + structure walker + statistics; concurrent fill (one thread per segment) over all schedules with <=2 preemptions; merge iterator: every family of 1-3 lists over subsets of {1,2,3} x every op sequence of depth 4 (quick) / 5 (thorough) over {SeekFirst, Seek(0..4), Next when valid} against the sorted multiset union; non-trivial = every distinct (shape, levels) / (family, op sequence)",
		Notes: []string{"Next is called only on a valid merge iterator", "segments are filled with ascending items in segment order (the builder's contract)"}})
}
