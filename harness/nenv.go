package main

// Environment for checks that drive a Nitro instance: configuration (memory mode,
// comparator, delta interleaving), the MVCC reference model, physical dumps through
// the accessors, snapshot scans.

import (
	"bytes"
	"fmt"
	"sort"
	"strings"
	"unsafe"

	"github.com/couchbase/nitro"
	"github.com/couchbase/nitro/skiplist"
	vos "github.com/couchbase/nitro/zzverif/os"
	"github.com/couchbase/nitro/zzverif/rand"
	vruntime "github.com/couchbase/nitro/zzverif/runtime"
	"github.com/couchbase/nitro/zzverif/vrt"
)

type nCfg struct {
	mm      bool
	cmp     string // default | kv | rev
	delta   bool
	writers int
}

func (c nCfg) String() string {
	m := "go"
	if c.mm {
		m = "mm"
	}
	d := ""
	if c.delta {
		d = "+delta"
	}
	if c.writers > 2 {
		d += fmt.Sprintf("+w%d", c.writers)
	}
	return fmt.Sprintf("%s/%s%s", m, c.cmp, d)
}

func revCmp(a, b []byte) int { return bytes.Compare(b, a) }

func (c nCfg) keyCmp() nitro.KeyCompare {
	switch c.cmp {
	case "kv":
		return nitro.CompareKV
	case "rev":
		return revCmp
	}
	return nil
}

// itemBytes builds the item for key k and value v under the configured comparator.
func (c nCfg) itemBytes(k, v string) []byte {
	if c.cmp == "kv" {
		return nitro.KVToBytes([]byte(k), []byte(v))
	}
	return []byte(k + v)
}

// keyOf returns the comparator key of item bytes (as a string).
func (c nCfg) keyOf(bs string) string {
	if c.cmp == "kv" {
		k, _ := nitro.KVFromBytes([]byte(bs))
		return string(k)
	}
	return bs
}

func (c nCfg) less(a, b string) bool {
	ka, kb := c.keyOf(a), c.keyOf(b)
	if c.cmp == "rev" {
		return ka > kb
	}
	return ka < kb
}

func show(bs string) string {
	var sb strings.Builder
	for _, ch := range []byte(bs) {
		if ch >= 32 && ch < 127 {
			sb.WriteByte(ch)
		} else {
			fmt.Fprintf(&sb, "\\x%02x", ch)
		}
	}
	return sb.String()
}

func showAll(l []string) string {
	var o []string
	for _, s := range l {
		o = append(o, show(s))
	}
	return "[" + strings.Join(o, " ") + "]"
}

// ---- MVCC reference model ----

type mvVer struct {
	bs         string
	key        string
	born, dead uint32
	removed    bool // physically erased by a same-epoch delete
	id         int
}

type mvModel struct {
	cfg  nCfg
	sn   uint32
	vers []*mvVer
	next int
}

func newModel(cfg nCfg) *mvModel { return &mvModel{cfg: cfg, sn: 1} }

func (m *mvModel) live(key string) *mvVer {
	for _, v := range m.vers {
		if !v.removed && v.dead == 0 && v.key == key {
			return v
		}
	}
	return nil
}

func (m *mvModel) Put(bs string) (*mvVer, bool) {
	k := m.cfg.keyOf(bs)
	if m.live(k) != nil {
		return nil, false
	}
	m.next++
	v := &mvVer{bs: bs, key: k, born: m.sn, id: m.next}
	m.vers = append(m.vers, v)
	return v, true
}

func (m *mvModel) DeleteVer(v *mvVer) bool {
	if v == nil || v.removed || v.dead != 0 {
		return false
	}
	if v.born == m.sn {
		v.removed = true
	} else {
		v.dead = m.sn
	}
	return true
}

func (m *mvModel) DeleteKey(bs string) (*mvVer, bool) {
	v := m.live(m.cfg.keyOf(bs))
	if v == nil {
		return nil, false
	}
	return v, m.DeleteVer(v)
}

func (m *mvModel) liveSet() []string {
	var out []string
	for _, v := range m.vers {
		if !v.removed && v.dead == 0 {
			out = append(out, v.bs)
		}
	}
	sort.Slice(out, func(i, j int) bool { return m.cfg.less(out[i], out[j]) })
	return out
}

// Snapshot returns the content of the snapshot taken now and advances the epoch.
func (m *mvModel) Snapshot() (uint32, []string) {
	c := m.liveSet()
	sn := m.sn
	m.sn++
	return sn, c
}

func (v *mvVer) visible(sn uint32) bool {
	return !v.removed && v.born <= sn && (v.dead == 0 || v.dead > sn)
}

// ---- environment ----

type openSnap struct {
	s       *nitro.Snapshot
	sn      uint32
	content []string
	closed  bool
}

type hRec struct {
	node *skiplist.Node
	ver  *mvVer
}

type nEnv struct {
	cfg     nCfg
	db      *nitro.Nitro
	ga      *GuardAlloc
	ws      []*nitro.Writer
	m       *mvModel
	snaps   []*openSnap
	handles []*hRec
	levels  []int // wanted level of the next Put per writer
	randID  []int
	closing bool
	salt    int
}

func newNEnv(cfg nCfg) *nEnv {
	e := &nEnv{cfg: cfg, m: newModel(cfg)}
	nitro.VerifResetGlobals()
	rand.ResetGlobal()
	vruntime.CPUs = 2
	c := nitro.DefaultConfig()
	if kc := cfg.keyCmp(); kc != nil {
		c.SetKeyComparator(kc)
	}
	if cfg.mm {
		e.ga = gaFresh()
		c.UseMemoryMgmt(e.ga.Malloc, e.ga.Free)
		if vrt.X != nil {
			vrt.AccessHook = e.ga.Access
			ga := e.ga
			vrt.FaultClassifier = func(addr uintptr) string {
				if ga.InArena(addr) {
					return "use-after-free"
				}
				return ""
			}
		}
		e.ga.OnFree = e.onFree
	}
	if cfg.delta {
		c.UseDeltaInterleaving()
	}
	e.levels = make([]int, cfg.writers)
	rand.NextLevel = func(id int) int {
		for wi, rid := range e.randID {
			if rid == id {
				return e.levels[wi]
			}
		}
		return 0
	}
	e.db = nitro.NewWithConfig(c)
	for i := 0; i < cfg.writers; i++ {
		e.randID = append(e.randID, rand.PeekNextID())
		e.ws = append(e.ws, e.db.NewWriter())
	}
	return e
}

// levelOf is the deterministic level policy of sequential explorations (a function of the bytes).
func levelOf(bs []byte, salt int) int {
	h := salt
	for _, b := range bs {
		h = h*31 + int(b)
	}
	return h % 3
}

func (e *nEnv) put(w int, bs []byte) *skiplist.Node {
	e.levels[w] = levelOf(bs, e.salt)
	return e.ws[w].Put2(bs)
}

// scan returns the items of an open snapshot in iteration order.
func scanSnap(s *nitro.Snapshot) ([]string, string) { return scanSnapRate(s, 0) }

func scanSnapRate(s *nitro.Snapshot, rate int) ([]string, string) {
	it := s.NewIterator()
	if it == nil {
		return nil, "NewIterator returned nil on an open snapshot"
	}
	defer it.Close()
	it.SetRefreshRate(rate)
	var out []string
	for it.SeekFirst(); it.Valid(); it.Next() {
		out = append(out, string(it.Get()))
		if len(out) > 200 {
			return out, "scan does not terminate (more than 200 items)"
		}
	}
	return out, ""
}

// physVer is one physically linked version as seen by a raw level-0 walk.
type physVer struct {
	bs         string
	born, dead uint32
	marked     bool
	node       *skiplist.Node
}

// physDump walks level 0 of the store through the raw accessor.
func (e *nEnv) physDump() ([]physVer, string) {
	st := nitro.VerifStore(e.db)
	head, tail := skiplist.VerifHead(st), skiplist.VerifTail(st)
	var out []physVer
	x, _ := skiplist.VerifNextRaw(head, 0)
	for x != tail {
		if x == nil {
			return out, "level-0 chain ends in nil"
		}
		if len(out) > 500 {
			return out, "level-0 chain does not reach tail (cycle)"
		}
		if e.ga != nil && e.ga.IsFreed(unsafe.Pointer(x)) {
			return out, "a node linked at level 0 has been returned to the allocator"
		}
		nx, marked := skiplist.VerifNextRaw(x, 0)
		itm := x.Item()
		if e.ga != nil && e.ga.IsFreed(itm) {
			return out, "the item of a node linked at level 0 has been returned to the allocator"
		}
		b, d := nitro.VerifItemSn(itm)
		out = append(out, physVer{bs: string(nitro.VerifItemBytes(itm)), born: b, dead: d, marked: marked, node: x})
		x = nx
	}
	return out, ""
}

func physString(p []physVer) string {
	var o []string
	for _, v := range p {
		m := ""
		if v.marked {
			m = "*"
		}
		o = append(o, fmt.Sprintf("%s@%d-%d%s", show(v.bs), v.born, v.dead, m))
	}
	return strings.Join(o, " ")
}

func resetFS() *vos.MemFS {
	fs := vos.NewMemFS()
	vos.FS = fs
	return fs
}

// onFree is called by the guard allocator before a block is released: while the instance is in
// service the block must not be reachable at any level of the structure (as a node or as the item
// of a reachable node). Nitro.Close frees linked nodes by design, so the check stops there.
func (e *nEnv) onFree(p unsafe.Pointer, size int) {
	if e.closing || e.db == nil {
		return
	}
	st := nitro.VerifStore(e.db)
	head, tail := skiplist.VerifHead(st), skiplist.VerifTail(st)
	if unsafe.Pointer(head) == p || unsafe.Pointer(tail) == p {
		return
	}
	for l := skiplist.VerifLevel(st); l >= 0; l-- {
		x, _ := skiplist.VerifNextRaw(head, l)
		for steps := 0; x != tail && x != nil && steps < 1000; steps++ {
			if e.ga.IsFreed(unsafe.Pointer(x)) {
				e.ga.viol("freed-while-linked", fmt.Sprintf("a node reachable at level %d has already been returned to the allocator", l))
				return
			}
			if unsafe.Pointer(x) == p {
				e.ga.viol("freed-while-linked", fmt.Sprintf("a node is being released while it is still linked at level %d", l))
				return
			}
			if x.Item() == p {
				e.ga.viol("freed-while-linked", fmt.Sprintf("an item is being released while its node is still linked at level %d", l))
				return
			}
			x, _ = skiplist.VerifNextRaw(x, l)
		}
	}
}
