package main

// C10: Visitor delivers every visible item exactly once, partitioned in order.
// At every state of the history exploration (populated database, deletes and re-inserts
// so that shard pivots can be versions invisible to the visited snapshot), for every open
// snapshot: Visitor with every (shards, concurrency, callback error placement, refresh
// rate) combination; the deliveries are compared with the snapshot's reference content.

import (
	"errors"
	"fmt"
	"sort"

	"github.com/couchbase/nitro"
)

type delivery struct {
	bs    string
	shard int
}

var errCallback = errors.New("callback error injected by the harness")

// visitOnce runs one Visitor call and checks the oracle. errAt: 1-based delivery index at which
// the callback fails (0 = never).
func visitOnce(e *nEnv, s *openSnap, shards, conc, errAt int) string {
	var got []delivery
	n := 0
	cb := func(itm *nitro.Item, shard int) error {
		n++
		got = append(got, delivery{string(itm.Bytes()), shard})
		if len(got) > 500 {
			return errors.New("too many deliveries")
		}
		if n == errAt {
			return errCallback
		}
		return nil
	}
	err := e.db.Visitor(s.s, cb, shards, conc)
	desc := fmt.Sprintf("Visitor(snapshot epoch %d content %s, shards=%d, concurrency=%d, callback error at delivery %d) delivered %v", s.sn, showAll(s.content), shards, conc, errAt, got)
	if errAt > 0 && errAt <= len(got) {
		if err == nil {
			return "a callback returned an error but Visitor returned nil: " + desc
		}
	} else if err != nil {
		return fmt.Sprintf("Visitor returned %v although no callback failed: %s", err, desc)
	}
	// exactly once (at most once when a shard was aborted by the injected error)
	count := map[string]int{}
	for _, d := range got {
		count[d.bs]++
	}
	inContent := map[string]bool{}
	for _, c := range s.content {
		inContent[c] = true
		if count[c] > 1 {
			return fmt.Sprintf("item %s delivered %d times: %s", show(c), count[c], desc)
		}
		if count[c] == 0 && errAt == 0 {
			return fmt.Sprintf("item %s was not delivered: %s", show(c), desc)
		}
	}
	for _, d := range got {
		if !inContent[d.bs] {
			return fmt.Sprintf("item %s is not visible in the snapshot but was delivered: %s", show(d.bs), desc)
		}
	}
	// order inside shards and across shards
	per := map[int][]string{}
	var ids []int
	for _, d := range got {
		if _, ok := per[d.shard]; !ok {
			ids = append(ids, d.shard)
		}
		per[d.shard] = append(per[d.shard], d.bs)
	}
	sort.Ints(ids)
	prevMax := ""
	havePrev := false
	for _, id := range ids {
		l := per[id]
		for i := 1; i < len(l); i++ {
			if !e.cfg.less(l[i-1], l[i]) {
				return fmt.Sprintf("shard %d is not ascending: %s", id, desc)
			}
		}
		if havePrev && !e.cfg.less(prevMax, l[0]) {
			return fmt.Sprintf("shard %d starts at %s which is not after the previous shard's %s: %s", id, show(l[0]), show(prevMax), desc)
		}
		prevMax = l[len(l)-1]
		havePrev = true
	}
	return ""
}

func c10Check(thorough bool) func(e *nEnv, jc *JobCtx, fail func(kind, msg string)) {
	return func(e *nEnv, jc *JobCtx, fail func(kind, msg string)) {
		for _, s := range e.snaps {
			if s.closed {
				continue
			}
			for _, rate := range []int{10000, 1} {
				nitro.VerifSetRefreshRate(e.db, rate)
				for _, shards := range []int{1, 2, 3, 4, 8, 16} {
					for _, conc := range []int{1, 2, 3} {
						if rate == 1 && conc > 1 && !thorough {
							continue
						}
						maxErr := 0
						if conc <= 2 && shards <= 3 {
							maxErr = len(s.content)
						}
						for errAt := 0; errAt <= maxErr; errAt++ {
							jc.Rep.Extra["visitor_calls"]++
							if p := visitOnce(e, s, shards, conc, errAt); p != "" {
								fail("visitor", p)
							}
						}
					}
				}
			}
			nitro.VerifSetRefreshRate(e.db, 10000)
		}
	}
}

func init() {
	register(&propDef{ID: "C10",
		Jobs: func(tier string) []Job {
			hd := 3
			if tier == "thorough" {
				hd = 4
			}
			var cfgs []seqCfg
			for _, c := range []string{"default", "kv"} {
				for salt := 0; salt < 3; salt++ {
					cfgs = append(cfgs, seqCfg{nCfg: nCfg{cmp: c, writers: 2}, policy: "drain", depth: hd, maxSnaps: 3, init: "abc", keys: []string{"a", "b", "c"}, salt: salt, check: c10Check(tier == "thorough")})
				}
			}
			if tier == "thorough" {
				cfgs = append(cfgs, seqCfg{nCfg: nCfg{mm: true, cmp: "default", writers: 2}, policy: "drain", depth: hd, maxSnaps: 3, init: "abc", keys: []string{"a", "b", "c"}, check: c10Check(true)})
				cfgs = append(cfgs, seqCfg{nCfg: nCfg{cmp: "default", writers: 2}, policy: "starve", depth: hd, maxSnaps: 3, init: "abc", keys: []string{"a", "b", "c"}, check: c10Check(true)})
			}
			jobs := seqJobs("C10", tier, cfgs)
			return append(jobs, c10ConcJobs(tier)...)
		},
		Rule:  "at every state of the history exploration (3 keys, deletes and re-inserts over up to 3 epochs, three level policies so that pivots fall on different nodes), for every open snapshot: Visitor with shards in {1,2,3,4,8,16} x concurrency in {1,2,3} x callback error at the j-th delivery for every j (and none) x refresh rate {default,1}; deliveries must be the snapshot's reference content exactly once, ascending inside a shard, shard i entirely before shard i+1, an erroring callback must make Visitor return an error, and every call must terminate (deadlocks are decided by the scheduler); counters.visitor_calls counts the calls; non-trivial = distinct history states",
		Notes: []string{"worker goroutines of Visitor run under the default schedule in the history jobs; schedules are explored by the conc jobs"}})
}

func c10ConcJobs(tier string) []Job { return concJobs("C10", tier) }
