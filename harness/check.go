package main

import (
	"bufio"
	"bytes"
	"context"
	"encoding/json"
	"fmt"
	"io"
	"os"
	"os/exec"
	"path/filepath"
	"regexp"
	"sort"
	"strconv"
	"strings"
	"sync"
	"time"
)

type poolTask struct {
	task
	attempts int
}

type workerProc struct {
	cmd    *exec.Cmd
	stdin  io.WriteCloser
	out    *bufio.Reader
	stderr *bytes.Buffer
}

func startWorker(id, tier string) (*workerProc, error) {
	exe, _ := os.Executable()
	cmd := exec.Command(exe, "worker", id, tier)
	cmd.Env = append(os.Environ(), "GOMAXPROCS=1", "GOTRACEBACK=single")
	stdin, err := cmd.StdinPipe()
	if err != nil {
		return nil, err
	}
	stdout, err := cmd.StdoutPipe()
	if err != nil {
		return nil, err
	}
	var eb bytes.Buffer
	cmd.Stderr = &limitedWriter{w: &eb, max: 1 << 16}
	if err := cmd.Start(); err != nil {
		return nil, err
	}
	return &workerProc{cmd: cmd, stdin: stdin, out: bufio.NewReaderSize(stdout, 1<<20), stderr: &eb}, nil
}

type limitedWriter struct {
	w   *bytes.Buffer
	max int
}

func (l *limitedWriter) Write(p []byte) (int, error) {
	if l.w.Len() < l.max {
		l.w.Write(p)
	}
	return len(p), nil
}

type merged struct {
	reports []*Report
	errors  []string
	crashes []string
	stuck   []string
	jobsRun map[string]bool
}

func budgetFor(tier string) time.Duration {
	if s := os.Getenv("VERIF_BUDGET_S"); s != "" {
		if n, err := strconv.Atoi(s); err == nil && n > 0 {
			return time.Duration(n) * time.Second
		}
	}
	if tier == "thorough" {
		return 25 * time.Minute
	}
	return 150 * time.Second
}

func cmdCheck(args []string) int {
	id, tier, jobsRe, nworkers := parseArgs(args)
	p := props[id]
	if p == nil {
		fatalf("unknown property %q (known: %v)", id, propIDs())
	}
	seed, _ := strconv.Atoi(os.Getenv("VERIF_SEED"))
	t0 := time.Now()
	jobs := jobsFor(p, tier)
	names := map[string]bool{}
	for _, j := range jobs {
		if names[j.Name] {
			fatalf("duplicate job name %q (replays address jobs by name)", j.Name)
		}
		names[j.Name] = true
	}
	sel := matchJobs(jobs, jobsRe)
	if len(sel) == 0 {
		fatalf("no jobs for %s tier %s", id, tier)
	}
	deadline := t0.Add(budgetFor(tier))
	var tasks []*poolTask
	for _, ji := range sel {
		n := jobs[ji].Shards
		if n < 1 {
			n = 1
		}
		for s := 0; s < n; s++ {
			tasks = append(tasks, &poolTask{task: task{Job: ji, Shard: s, NShard: n, Deadline: deadline.UnixMilli()}})
		}
	}
	// light jobs first (few shards), heavy sharded jobs last: if the wall-clock budget ends the run early,
	// what is cut is the tail of the most expensive searches, not whole cheap drivers
	sort.SliceStable(tasks, func(i, j int) bool { return tasks[i].NShard < tasks[j].NShard })
	// the seed only permutes the order in which tasks are handed out; the explored set is seed-independent
	if seed != 0 && len(tasks) > 1 {
		// rotate inside each weight class only
		for lo := 0; lo < len(tasks); {
			hi := lo
			for hi < len(tasks) && tasks[hi].NShard == tasks[lo].NShard {
				hi++
			}
			if n := hi - lo; n > 1 {
				rot := seed % n
				if rot < 0 {
					rot += n
				}
				seg := append(append([]*poolTask{}, tasks[lo+rot:hi]...), tasks[lo:lo+rot]...)
				copy(tasks[lo:hi], seg)
			}
			lo = hi
		}
	}
	if nworkers > len(tasks) {
		nworkers = len(tasks)
	}
	fmt.Fprintf(os.Stderr, "[%s/%s] %d jobs, %d tasks, %d workers\n", id, tier, len(sel), len(tasks), nworkers)

	m := &merged{jobsRun: map[string]bool{}}
	var mu sync.Mutex
	queue := make(chan *poolTask, len(tasks)*2+1)
	for _, t := range tasks {
		queue <- t
	}
	var pending sync.WaitGroup
	pending.Add(len(tasks))
	go func() { pending.Wait(); close(queue) }()
	var wg sync.WaitGroup
	for w := 0; w < nworkers; w++ {
		wg.Add(1)
		go func() {
			defer wg.Done()
			var wp *workerProc
			defer func() {
				if wp != nil {
					wp.stdin.Close()
					wp.cmd.Wait()
				}
			}()
			for t := range queue {
				if wp == nil {
					var err error
					if wp, err = startWorker(id, tier); err != nil {
						mu.Lock()
						m.errors = append(m.errors, "cannot start worker: "+err.Error())
						mu.Unlock()
						pending.Done()
						continue
					}
				}
				bs, _ := json.Marshal(t.task)
				wp.stdin.Write(append(bs, '\n'))
				type res struct {
					line []byte
					err  error
				}
				ch := make(chan res, 1)
				go func(r *bufio.Reader) {
					l, err := r.ReadBytes('\n')
					ch <- res{l, err}
				}(wp.out)
				var r res
				grace := time.Until(deadline) + 3*time.Minute
				select {
				case r = <-ch:
				case <-time.After(grace):
					wp.cmd.Process.Kill()
					r = <-ch
					r.err = fmt.Errorf("stuck")
				}
				name := jobs[t.Job].Name
				if r.err != nil {
					wp.cmd.Process.Kill()
					wp.cmd.Wait()
					tail := tailOf(wp.stderr.String(), 1500)
					wp = nil
					mu.Lock()
					if r.err.Error() == "stuck" {
						m.stuck = append(m.stuck, name)
						mu.Unlock()
						pending.Done()
						continue
					}
					t.attempts++
					if t.attempts < 2 {
						mu.Unlock()
						fmt.Fprintf(os.Stderr, "[%s] worker died on job %s (attempt %d), retrying in a fresh process\n", id, name, t.attempts)
						queue <- t
						continue
					}
					m.crashes = append(m.crashes, fmt.Sprintf("job %s shard %d: worker process died twice: %s", name, t.Shard, tail))
					mu.Unlock()
					pending.Done()
					continue
				}
				var rep Report
				if err := json.Unmarshal(r.line, &rep); err != nil {
					mu.Lock()
					m.errors = append(m.errors, "bad worker output for "+name+": "+err.Error())
					mu.Unlock()
					pending.Done()
					continue
				}
				mu.Lock()
				m.reports = append(m.reports, &rep)
				m.jobsRun[name] = true
				if rep.Error != "" {
					m.errors = append(m.errors, rep.Error)
				}
				mu.Unlock()
				pending.Done()
			}
		}()
	}
	wg.Wait()
	return finish(p, id, tier, seed, t0, len(sel), m)
}

func tailOf(s string, n int) string {
	if len(s) > n {
		return "..." + s[len(s)-n:]
	}
	return s
}

// ---- known findings ----

type finding struct {
	Status   string // known | fixed
	Property string
	Match    *regexp.Regexp
	What     string
	Raw      string
}

// KNOWN_FINDINGS.txt line formats:
//
//	known: property=<id> match=<regexp over "job | kind @ site"> :: <what fails>
//	fixed: property=<id> <commit> <what failed>
func loadFindings() []finding {
	bs, err := os.ReadFile(filepath.Join(verifDir, "KNOWN_FINDINGS.txt"))
	if err != nil {
		return nil
	}
	var fs []finding
	for _, line := range strings.Split(string(bs), "\n") {
		line = strings.TrimSpace(line)
		if strings.HasPrefix(line, "known:") {
			rest := strings.TrimSpace(strings.TrimPrefix(line, "known:"))
			parts := strings.SplitN(rest, " :: ", 2)
			if len(parts) != 2 {
				continue
			}
			f := finding{Status: "known", What: parts[1], Raw: line}
			for _, tok := range strings.Fields(parts[0]) {
				if strings.HasPrefix(tok, "property=") {
					f.Property = strings.TrimPrefix(tok, "property=")
				}
			}
			if i := strings.Index(parts[0], "match="); i >= 0 {
				rx, err := regexp.Compile(strings.TrimSpace(parts[0][i+6:]))
				if err != nil {
					continue
				}
				f.Match = rx
			}
			if f.Property != "" && f.Match != nil {
				fs = append(fs, f)
			}
		}
	}
	return fs
}

func sigLine(v *Viol) string { return v.Job + " | " + v.Sig() }

// ---- finish: merge, confirm, evidence, exit code ----

func finish(p *propDef, id, tier string, seed int, t0 time.Time, njobs int, m *merged) int {
	var ex, tr, nodes, nontriv int64
	outcomes := map[string]int64{}
	var samples []string
	exhaustive := true
	caps := map[string]bool{}
	bounds := map[string]int64{}
	extra := map[string]int64{}
	var viols []Viol
	jobsMulti := 0
	sort.Slice(m.reports, func(i, j int) bool {
		if m.reports[i].Job != m.reports[j].Job {
			return m.reports[i].Job < m.reports[j].Job
		}
		return m.reports[i].Shard < m.reports[j].Shard
	})
	perJobOutcomes := map[string]map[string]bool{}
	for _, r := range m.reports {
		ex += r.Executions
		tr += r.Transitions
		nodes += r.Nodes
		nontriv += r.Nontrivial
		if perJobOutcomes[r.Job] == nil {
			perJobOutcomes[r.Job] = map[string]bool{}
		}
		for k, v := range r.Outcomes {
			outcomes[k] += v
			perJobOutcomes[r.Job][k] = true
		}
		if len(samples) < 6 {
			for _, s := range r.Samples {
				if len(samples) < 6 {
					samples = append(samples, s)
				}
			}
		}
		if !r.Exhaustive {
			exhaustive = false
			caps[r.CapHit] = true
		}
		if r.Bound != "" {
			bounds[r.Bound]++
		}
		for k, v := range r.Extra {
			extra[k] += v
		}
		for _, v := range r.Violations {
			dup := false
			for _, o := range viols {
				if o.Sig() == v.Sig() && o.Job == v.Job {
					dup = true
				}
			}
			if !dup {
				viols = append(viols, v)
			}
		}
	}
	// slowest jobs (stderr, for tuning)
	{
		jt := map[string]int64{}
		for _, r := range m.reports {
			jt[r.Job] += r.WallMs
		}
		type kv struct {
			k string
			v int64
		}
		var l []kv
		for k, v := range jt {
			l = append(l, kv{k, v})
		}
		sort.Slice(l, func(i, j int) bool { return l[i].v > l[j].v })
		for i := 0; i < len(l) && i < 8; i++ {
			fmt.Fprintf(os.Stderr, "  slow job %6.1fs cpu  %s\n", float64(l[i].v)/1000, l[i].k)
		}
	}
	for _, oc := range perJobOutcomes {
		if len(oc) > 1 {
			jobsMulti++
		}
	}
	if len(m.stuck) > 0 {
		exhaustive = false
		caps["stuck_worker"] = true
	}

	// infrastructure errors: no verdict
	if len(m.errors) > 0 {
		for _, e := range m.errors {
			fmt.Printf("ERROR: %s\n", firstLine(e))
			fmt.Fprintln(os.Stderr, e)
		}
		return 2
	}

	// classify violations against the known-findings file
	findings := loadFindings()
	knownHit := map[string]bool{}
	var fresh []Viol
	for i := range viols {
		v := &viols[i]
		matched := false
		for _, f := range findings {
			if f.Status == "known" && f.Property == id && f.Match.MatchString(sigLine(v)) {
				matched = true
				if !knownHit[f.Raw] {
					knownHit[f.Raw] = true
				}
			}
		}
		if !matched {
			fresh = append(fresh, *v)
		}
	}
	// worker crashes are violations of kind fatal (reproduced twice in fresh processes)
	for _, c := range m.crashes {
		fresh = append(fresh, Viol{Kind: "fatal", Msg: c, Site: "process death", Job: strings.Fields(strings.TrimPrefix(c, "job "))[0]})
	}

	for i := range fresh {
		fmt.Fprintf(os.Stderr, "  fresh violation %d: %s\n      %s\n", i+1, sigLine(&fresh[i]), firstLine(fresh[i].Msg))
	}
	// confirm fresh violations by replaying them 3x in fresh processes
	os.MkdirAll(filepath.Join(verifDir, "replays"), 0755)
	var confirmed []string
	var confirmedV []Viol
	nviol := 0
	nospSeen := 0
	watchdogFalse := 0
	for i := range fresh {
		v := &fresh[i]
		if len(confirmed) >= 5 {
			break
		}
		path := filepath.Join(verifDir, "replays", fmt.Sprintf("%s-%d.json", id, i+1))
		bs, _ := json.MarshalIndent(replayFile{Property: id, Tier: tier, Viol: *v}, "", " ")
		os.WriteFile(path, bs, 0644)
		if v.Kind == "fatal" {
			confirmed = append(confirmed, path)
			confirmedV = append(confirmedV, *v)
			nviol++
			continue
		}
		ok := true
		exe, _ := os.Executable()
		nosp := v.Kind == "hang" && v.Site == "no scheduling point"
		if nosp {
			nospSeen++
			if nospSeen > 1 {
				continue // one witness of a synchronisation-free loop is enough (each confirmation costs a timeout)
			}
		}
		for k := 0; k < 3; k++ {
			if nosp && k > 0 {
				break
			}
			ctx, cancel := context.WithTimeout(context.Background(), 60*time.Second)
			cmd := exec.CommandContext(ctx, exe, "replay", path, "--quiet")
			cmd.Env = append(os.Environ(), "GOMAXPROCS=1")
			out, _ := cmd.Output()
			timedOut := ctx.Err() != nil
			cancel()
			if nosp {
				if timedOut {
					continue // the replay stops reaching scheduling points as well: confirmed
				}
				// the watchdog fired but the same execution terminates when replayed (a starved or paused
				// worker): not a verdict; the job is reported as not exhaustively explored
				ok = false
				watchdogFalse++
				break
			}
			if strings.TrimSpace(string(out)) != strings.TrimSpace(v.Sig()) {
				ok = false
				fmt.Printf("ERROR: violation of %s in job %s did not reproduce identically on replay %d (got %q want %q)\n", id, v.Job, k+1, strings.TrimSpace(string(out)), v.Sig())
				break
			}
		}
		if !ok && nosp {
			continue
		}
		if !ok {
			return 2
		}
		confirmed = append(confirmed, path)
		confirmedV = append(confirmedV, *v)
		nviol++
	}

	wall := time.Since(t0).Seconds()
	cov := map[string]interface{}{
		"states":                        maxi(nodes, 1),
		"transitions":                   maxi(tr, 1),
		"traces_validated_against_impl": ex,
		"evaluations":                   ex,
		"distinct_nontrivial":           nontriv,
		"rule":                          p.Rule,
		"samples":                       samples,
		"exhaustive":                    exhaustive,
		"jobs":                          njobs,
		"jobs_with_several_outcomes":    jobsMulti,
		"distinct_outcomes":             len(outcomes),
		"bounds_completed":              bounds,
		"counters":                      extra,
		"known_findings_met":            len(knownHit),
	}
	if watchdogFalse > 0 {
		exhaustive = false
		caps["watchdog_not_reproduced"] = true
	}
	if !exhaustive {
		var cs []string
		for c := range caps {
			cs = append(cs, c)
		}
		sort.Strings(cs)
		cov["caps_hit"] = cs
		cov["stuck_jobs"] = m.stuck
	}
	// a few outcome classes, largest first
	type kv struct {
		k string
		v int64
	}
	var kvs []kv
	for k, v := range outcomes {
		kvs = append(kvs, kv{k, v})
	}
	sort.Slice(kvs, func(i, j int) bool { return kvs[i].v > kvs[j].v || (kvs[i].v == kvs[j].v && kvs[i].k < kvs[j].k) })
	top := map[string]int64{}
	for i, e := range kvs {
		if i >= 12 {
			break
		}
		top[e.k] = e.v
	}
	cov["outcome_classes_top"] = top
	level := p.Level
	if level == "" {
		level = "model_checking"
	}
	ev := map[string]interface{}{
		"property_id": id,
		"tier":        tier,
		"seed":        seed,
		"level":       level,
		"coverage":    cov,
		"assumptions": p.Notes,
		"wall_s":      wall,
		"violations":  nviol,
	}
	if len(samples) == 0 {
		cov["samples"] = []string{"(no sample recorded)"}
	}
	bs, _ := json.MarshalIndent(ev, "", " ")
	os.MkdirAll(filepath.Join(verifDir, "evidence"), 0755)
	if d := os.Getenv("VERIF_EVIDENCE_DIR"); d != "" {
		// an extra copy elsewhere (used to keep a thorough-tier record next to the quick-tier evidence)
		os.MkdirAll(d, 0755)
		os.WriteFile(filepath.Join(d, id+".json"), bs, 0644)
	} else if os.Getenv("VERIF_NO_EVIDENCE") == "" {
		os.WriteFile(filepath.Join(verifDir, "evidence", id+".json"), bs, 0644)
	}

	var known []string
	for raw := range knownHit {
		known = append(known, raw)
	}
	sort.Strings(known)
	for _, raw := range known {
		for _, f := range findings {
			if f.Raw == raw {
				fmt.Printf("KNOWN-FINDING: property=%s %s\n", id, f.What)
			}
		}
	}
	fmt.Printf("%s tier=%s jobs=%d executions=%d transitions=%d states=%d distinct_nontrivial=%d outcomes=%d exhaustive=%v wall=%.1fs\n",
		id, tier, njobs, ex, tr, nodes, nontriv, len(outcomes), exhaustive, wall)
	if nviol > 0 {
		for i, path := range confirmed {
			v := confirmedV[i]
			fmt.Printf("  violation: job=%s kind=%s site=%s\n    %s\n", v.Job, v.Kind, v.Site, firstLine(v.Msg))
			fmt.Printf("VIOLATION property=%s replay=%s\n", id, path)
		}
		return 1
	}
	return 0
}

func maxi(a, b int64) int64 {
	if a > b {
		return a
	}
	return b
}
