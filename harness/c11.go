package main

// C11: restore detects damaged backups — error or exact, never silent, never stuck.
// A small backup is written by the real StoreToDisk into the in-memory file system; then
// every single-byte alteration (all 255 other values), every truncation, every removal of
// every file and all pairs of shard truncations are applied to a copy of the image and
// LoadFromDisk runs on it inside its own controlled execution, so that "terminates" is
// decided by the scheduler (deadlock / livelock), not by a timeout.

import (
	"fmt"
	"os"
	"sort"
	"strings"

	vos "github.com/couchbase/nitro/zzverif/os"
	"github.com/couchbase/nitro/zzverif/vrt"
)

type damage struct {
	kind  string // byte | trunc | remove | trunc2
	file  string
	off   int
	val   byte
	file2 string
	off2  int
}

func (d damage) String() string {
	switch d.kind {
	case "byte":
		return fmt.Sprintf("%s[%d]=0x%02x", d.file, d.off, d.val)
	case "trunc":
		return fmt.Sprintf("truncate %s to %d bytes", d.file, d.off)
	case "remove":
		return "remove " + d.file
	default:
		return fmt.Sprintf("truncate %s to %d and %s to %d bytes", d.file, d.off, d.file2, d.off2)
	}
}

// class names the damage for violation signatures: alterations of a manifest byte are one class per
// offset (every value that breaks the same token behaves alike), everything else is its own class.
func (d damage) class() string {
	short := func(p string) string { return strings.TrimPrefix(p, backupDir+"/") }
	switch d.kind {
	case "byte":
		if strings.HasSuffix(d.file, ".json") {
			return fmt.Sprintf("%s[%d]", short(d.file), d.off)
		}
		return fmt.Sprintf("%s[%d]=0x%02x", short(d.file), d.off, d.val)
	case "trunc":
		return fmt.Sprintf("truncate %s to %d", short(d.file), d.off)
	case "remove":
		return "remove " + short(d.file)
	default:
		return fmt.Sprintf("truncate %s to %d and %s to %d", short(d.file), d.off, short(d.file2), d.off2)
	}
}

func (d damage) apply(fs *vos.MemFS) {
	switch d.kind {
	case "byte":
		b, _ := fs.Get(d.file)
		nb := append([]byte(nil), b...)
		nb[d.off] = d.val
		fs.Put(d.file, nb)
	case "trunc":
		b, _ := fs.Get(d.file)
		fs.Put(d.file, b[:d.off])
	case "remove":
		fs.Delete(d.file)
	case "trunc2":
		b, _ := fs.Get(d.file)
		fs.Put(d.file, b[:d.off])
		b2, _ := fs.Get(d.file2)
		fs.Put(d.file2, b2[:d.off2])
	}
}

// frameOffsets returns the offsets of the first two (high) bytes of every 4-byte length prefix of a shard file.
func frameHighBytes(data []byte) map[int]bool {
	hi := map[int]bool{}
	off := 0
	for off+4 <= len(data) {
		l := int(data[off])<<24 | int(data[off+1])<<16 | int(data[off+2])<<8 | int(data[off+3])
		hi[off] = true
		hi[off+1] = true
		if l == 0 {
			break
		}
		off += 4 + l
	}
	return hi
}

// byteDamages lists the single-byte alterations of one file.
func byteDamages(file string, data []byte) []damage {
	var out []damage
	isShard := strings.Contains(file, "shard-")
	var hi map[int]bool
	if isShard {
		hi = frameHighBytes(data)
	}
	for off := range data {
		for v := 0; v < 256; v++ {
			if byte(v) == data[off] {
				continue
			}
			if hi[off] {
				// high bytes of a length prefix: every value claims an item far larger than the file and takes
				// the same allocate-then-short-read path; one representative per size class
				if v != 1 {
					continue
				}
			}
			out = append(out, damage{kind: "byte", file: file, off: off, val: byte(v)})
		}
	}
	return out
}

func structuralDamages(img *vos.MemFS) []damage {
	var out []damage
	paths := img.Paths()
	for _, p := range paths {
		out = append(out, damage{kind: "remove", file: p})
		d, _ := img.Get(p)
		for n := 0; n < len(d); n++ {
			out = append(out, damage{kind: "trunc", file: p, off: n})
		}
	}
	// all pairs of shard truncations (more damaged shards than loader goroutines)
	var shards []string
	for _, p := range paths {
		if strings.Contains(p, "/data/shard-") {
			shards = append(shards, p)
		}
	}
	for i := 0; i < len(shards); i++ {
		for j := i + 1; j < len(shards); j++ {
			di, _ := img.Get(shards[i])
			dj, _ := img.Get(shards[j])
			for a := 0; a < len(di); a++ {
				for b := 0; b < len(dj); b++ {
					out = append(out, damage{kind: "trunc2", file: shards[i], off: a, file2: shards[j], off2: b})
				}
			}
		}
	}
	return out
}

// makeImage builds the canned backup in its own execution and returns the file-system image.
func makeImage(c *cannedDB, storeConc int) (*vos.MemFS, string) {
	var img *vos.MemFS
	var problem string
	r := vrt.Run(nil, nil, false, 2000000, func() {
		fs := resetFS()
		vrt.NoBranch(true)
		e, err := buildBackup(c, storeConc)
		if err != nil {
			problem = "StoreToDisk failed on the undamaged file system: " + err.Error()
			return
		}
		img = fs.Clone()
		_ = e
	})
	vos.FS = nil
	if r.Verdict.Kind != "" {
		return nil, "building the backup: " + r.Verdict.Kind + ": " + firstLine(r.Verdict.Msg)
	}
	return img, problem
}

// loadOutcome runs LoadFromDisk on img inside a controlled execution.
// kind: "" = error returned or exact content; otherwise the violation kind.
func loadOutcome(c *cannedDB, img *vos.MemFS, conc int, mm bool) (kind, msg, site string, steps int) {
	var res *restored
	r := vrt.Run(nil, nil, false, 2000000, func() {
		vos.FS = img.Clone()
		vrt.NoBranch(true)
		resetLevels()
		cfg := c.cfg
		var ga *GuardAlloc
		if mm {
			cfg.mm = true
			ga = gaFresh()
		}
		res = loadBackup(cfg, ga, conc)
	})
	vos.FS = nil
	steps = r.Steps
	switch r.Verdict.Kind {
	case "":
	case "deadlock", "livelock", "hang":
		return "restore-stuck", "LoadFromDisk does not terminate (" + r.Verdict.Kind + "): " + firstLine(r.Verdict.Msg), r.Verdict.Site, steps
	default:
		return "restore-" + r.Verdict.Kind, firstLine(r.Verdict.Msg), r.Verdict.Site, steps
	}
	if res == nil {
		return "restore-stuck", "LoadFromDisk did not return", "", steps
	}
	if res.err != nil {
		return "", "error: " + res.err.Error(), "", steps
	}
	if fmt.Sprint(res.content) != fmt.Sprint(c.content) || res.count != int64(len(c.content)) {
		return "restore-silent", fmt.Sprintf("LoadFromDisk returned no error but the snapshot holds %s (Count=%d) instead of the stored %s", showAll(res.content), res.count, showAll(c.content)), "LoadFromDisk", steps
	}
	return "", "exact", "", steps
}

func runC11(jc *JobCtx, ci int, conc int, file string, structural bool) {
	rep := jc.Rep
	c := cannedDBs[ci]
	img, problem := makeImage(&c, 1)
	if img == nil || problem != "" {
		rep.Error = "C11 setup: " + problem
		return
	}
	// the undamaged image must load exactly (otherwise nothing below means anything)
	if k, m, _, _ := loadOutcome(&c, img, conc, false); k != "" || m != "exact" {
		rep.violate(Viol{Kind: "restore-undamaged", Msg: "the undamaged backup does not restore exactly: " + k + " " + m + " files: " + fsSummary(img), Site: "LoadFromDisk", Job: jc.Job.Name, Choices: []int{-1}})
		return
	}
	var dmg []damage
	if structural {
		dmg = structuralDamages(img)
	} else {
		data, ok := img.Get(file)
		if !ok {
			rep.outcome("n/a")
			return
		}
		dmg = byteDamages(file, data)
	}
	one := func(i int) {
		d := dmg[i]
		fs := img.Clone()
		d.apply(fs)
		k, m, site, steps := loadOutcome(&c, fs, conc, false)
		rep.Executions++
		rep.Transitions += int64(steps)
		if dbg := os.Getenv("C11DEBUG"); dbg != "" {
			if f, err := os.OpenFile(dbg, os.O_WRONLY|os.O_CREATE|os.O_APPEND, 0644); err == nil {
				fmt.Fprintf(f, "%s %s => %s %s\n", jc.Job.Name, d, k, m)
				f.Close()
			}
		}
		if k == "restore-silent" {
			// one signature per damage class and restored content, so that a listed finding names
			// exactly the damages it covers
			site = fmt.Sprintf("LoadFromDisk: %s => %s", d.class(), m[strings.Index(m, "holds ")+6:strings.Index(m, " instead")])
		}
		if k != "" {
			rep.violate(Viol{Kind: k, Msg: fmt.Sprintf("backup %q (%s), damage: %s, load concurrency %d: %s", c.name, fsSummary(img), d, conc, m), Site: site, Job: jc.Job.Name, Choices: []int{i}})
			rep.outcome("!" + k)
		} else if m == "exact" {
			rep.outcome("exact")
		} else {
			rep.outcome("error")
		}
	}
	if jc.Replay {
		if len(jc.ReplayChois) == 1 && jc.ReplayChois[0] >= 0 && jc.ReplayChois[0] < len(dmg) {
			one(jc.ReplayChois[0])
		}
		return
	}
	for i := range dmg {
		if !jc.Deadline.IsZero() && i%64 == 0 && timeUp(jc) {
			rep.Exhaustive = false
			rep.CapHit = "deadline"
			break
		}
		one(i)
	}
	rep.Nodes = rep.Executions
	rep.Nontrivial = rep.Executions
	rep.Bound = "all single damages"
	if len(dmg) > 0 {
		rep.sample(fmt.Sprintf("backup %q files %s: %d damages, e.g. %s; %s", c.name, fsSummary(img), len(dmg), dmg[0], dmg[len(dmg)/2]))
	}
}

func c11Jobs(tier string) []Job {
	var jobs []Job
	// file names of the canned backups are known statically
	files := func(c cannedDB) []string {
		fs := []string{backupDir + "/nitro.json", backupDir + "/data/files.json", backupDir + "/data/checksums.json"}
		for i := 0; i < c.ncpu; i++ {
			fs = append(fs, fmt.Sprintf("%s/data/shard-%d", backupDir, i))
		}
		if c.delta {
			fs = append(fs, backupDir+"/delta/files.json", backupDir+"/delta/checksums.json")
			for i := 0; i < c.cfg.writers; i++ {
				fs = append(fs, fmt.Sprintf("%s/delta/shard-%d", backupDir, i))
			}
		}
		sort.Strings(fs)
		return fs
	}
	for ci, c := range cannedDBs {
		ci, c := ci, c
		concs := []int{1, 2}
		if tier == "thorough" {
			concs = []int{1, 2, 3}
		} else if ci == 1 || ci >= 3 {
			concs = []int{1}
		}
		for _, conc := range concs {
			conc := conc
			for _, f := range files(c) {
				f := f
				short := strings.TrimPrefix(f, backupDir+"/")
				jobs = append(jobs, Job{Name: fmt.Sprintf("C11/%s/conc%d/bytes/%s", c.name, conc, short), Run: func(jc *JobCtx) { runC11(jc, ci, conc, f, false) }})
			}
			jobs = append(jobs, Job{Name: fmt.Sprintf("C11/%s/conc%d/structural", c.name, conc), Run: func(jc *JobCtx) { runC11(jc, ci, conc, "", true) }})
		}
	}
	return jobs
}

func init() {
	register(&propDef{ID: "C11", Jobs: c11Jobs, Level: "fault_enumeration",
		Rule:  "three backups written by the real StoreToDisk (one non-empty shard + an empty one; two non-empty shards; delta interleaving with a non-empty delta file) x every single-byte alteration of every file (all 255 other values; for the two high bytes of a length prefix one representative, since every value claims an item larger than the file), every truncation length, every removal, all pairs of shard truncations x load concurrency {1,2}(,3); each damaged image is loaded in its own controlled execution: LoadFromDisk must terminate (deadlock / livelock decided by the scheduler), not panic, and return an error or exactly the stored content and count; non-trivial = every damaged image",
		Notes: []string{"single-fault damage plus pairs of shard truncations", "loader goroutines run under the default schedule"}})
}
