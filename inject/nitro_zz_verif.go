package nitro

// Read-only accessors added by the /verif overlay (never part of the repository).
// They only read private state (or call existing private constructors); none changes behaviour.

import (
	"sync/atomic"
	"unsafe"

	"github.com/couchbase/nitro/skiplist"
)

// VerifStore returns the skiplist holding the items.
func VerifStore(m *Nitro) *skiplist.Skiplist { return m.store }

// VerifItemSn returns (bornSn, deadSn) of an item.
func VerifItemSn(itm unsafe.Pointer) (uint32, uint32) {
	i := (*Item)(itm)
	return i.bornSn, atomic.LoadUint32(&i.deadSn)
}

// VerifItemBytes returns the bytes of an item held by a node.
func VerifItemBytes(itm unsafe.Pointer) []byte { return (*Item)(itm).Bytes() }

// VerifSnapshotInfo returns epoch and reference count of a snapshot.
func VerifSnapshotInfo(s *Snapshot) (uint32, int32) { return s.sn, atomic.LoadInt32(&s.refCount) }

// VerifRetired returns the epochs of snapshots closed but not yet collected.
func VerifRetired(m *Nitro) []uint32 {
	var out []uint32
	st := m.gcsnapshots
	head := skiplist.VerifHead(st)
	tail := skiplist.VerifTail(st)
	for x, _ := skiplist.VerifNextRaw(head, 0); x != tail && x != nil; {
		nx, del := skiplist.VerifNextRaw(x, 0)
		if !del {
			out = append(out, (*Snapshot)(x.Item()).sn)
		}
		x = nx
	}
	return out
}

// VerifOpenSnapshots returns the epochs of snapshots in the live list.
func VerifOpenSnapshots(m *Nitro) []uint32 {
	var out []uint32
	st := m.snapshots
	head := skiplist.VerifHead(st)
	tail := skiplist.VerifTail(st)
	for x, _ := skiplist.VerifNextRaw(head, 0); x != tail && x != nil; {
		nx, del := skiplist.VerifNextRaw(x, 0)
		if !del {
			out = append(out, (*Snapshot)(x.Item()).sn)
		}
		x = nx
	}
	return out
}

// VerifWriterGC returns the length of a writer's pending garbage list.
func VerifWriterGC(w *Writer) int {
	n := 0
	for x := w.gchead; x != nil && n < 1000; x = x.GetLink() {
		n++
	}
	return n
}

// VerifSetRefreshRate sets the visitor refresh rate of the instance configuration.
func VerifSetRefreshRate(m *Nitro, r int) { m.refreshRate = r }

// VerifNewFileWriter / VerifNewFileReader expose the backup file codec.
func VerifNewFileWriter(m *Nitro) FileWriter          { return m.newFileWriter(RawdbFile) }
func VerifNewFileReader(m *Nitro, ver int) FileReader { return m.newFileReader(RawdbFile, ver) }

// VerifNewItem allocates an item through the instance (Go memory).
func VerifNewItem(m *Nitro, bs []byte) *Item { return m.newItem(bs, false) }

// VerifResetGlobals resets package-level state shared between executions.
func VerifResetGlobals() {
	dbInstances = skiplist.New()
	dbInstancesCount = 0
}

// VerifWriterCount returns the writer-local live-item delta.
func VerifWriterCount(w *Writer) int64 { return w.count }

// VerifWriterGCNodes returns the nodes of a writer's pending garbage list.
func VerifWriterGCNodes(w *Writer) []*skiplist.Node {
	var out []*skiplist.Node
	for x := w.gchead; x != nil && len(out) < 1000; x = x.GetLink() {
		out = append(out, x)
	}
	return out
}

// VerifSnapshotGCNodes returns the nodes of a snapshot's garbage list.
func VerifSnapshotGCNodes(s *Snapshot) []*skiplist.Node {
	var out []*skiplist.Node
	for x := s.gclist; x != nil && len(out) < 1000; x = x.GetLink() {
		out = append(out, x)
	}
	return out
}

// VerifCurrSn returns the current epoch without a scheduling point.
func VerifCurrSn(m *Nitro) uint32 { return atomic.LoadUint32(&m.currSn) }

// VerifLastGCSn returns the collection frontier without a scheduling point.
func VerifLastGCSn(m *Nitro) uint32 { return atomic.LoadUint32(&m.lastGCSn) }

// VerifItemsCount returns the global live-item counter without a scheduling point.
func VerifItemsCount(m *Nitro) int64 { return atomic.LoadInt64(&m.itemsCount) }

// VerifIterState returns the private counters and the cursor node of a snapshot iterator.
func VerifIterState(it *Iterator) (count, refreshRate int, node *skiplist.Node) {
	return it.count, it.refreshRate, it.iter.GetNode()
}

// VerifAggrStats returns the aggregated statistics report DumpStats prints.
func VerifAggrStats(m *Nitro) skiplist.StatsReport { return m.aggrStoreStats() }
