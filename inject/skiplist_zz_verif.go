package skiplist

// Read-only accessors added by the /verif overlay (never part of the repository).
// They only read private state; none changes behaviour.

import (
	"sync/atomic"
	"unsafe"
)

// VerifNextRaw reads the successor pointer and the deleted mark of n at the given level
// without passing through the instrumented atomics (no scheduling point, no access hook).
func VerifNextRaw(n *Node, level int) (*Node, bool) {
	nodeRefAddr := uintptr(unsafe.Pointer(n)) + nodeHdrSize + nodeRefSize*uintptr(level)
	wordAddr := (*uint64)(unsafe.Pointer(nodeRefAddr + uintptr(7)))
	v := atomic.LoadUint64(wordAddr)
	return (*Node)(unsafe.Pointer(uintptr(v >> 8))), v&deletedFlag == deletedFlag
}

// VerifLevel returns the current maximum level of the list.
func VerifLevel(s *Skiplist) int { return int(atomic.LoadInt32(&s.level)) }

// VerifHead / VerifTail return the sentinels.
func VerifHead(s *Skiplist) *Node { return s.head }
func VerifTail(s *Skiplist) *Node { return s.tail }

// VerifNodeLevel returns the height field of a node.
func VerifNodeLevel(n *Node) int { return int(n.level) }

// VerifSessionRef returns the object attached to a barrier session and its close number.
func VerifSessionRef(bs *BarrierSession) (unsafe.Pointer, uint64) { return bs.objectRef, bs.seqno }

// VerifSessionLive returns the raw live counter of a session.
func VerifSessionLive(bs *BarrierSession) int32 { return atomic.LoadInt32(bs.liveCount) }

// VerifBarrierQueued returns the number of terminated sessions not yet destructed.
func VerifBarrierQueued(ab *AccessBarrier) int {
	if ab.freeq == nil {
		return 0
	}
	n := 0
	for x, _ := VerifNextRaw(ab.freeq.head, 0); x != ab.freeq.tail && x != nil; {
		nx, del := VerifNextRaw(x, 0)
		if !del {
			n++
		}
		x = nx
	}
	return n
}

// VerifBarrierCounters returns (sessions closed, sessions destructed, last destructed close number).
func VerifBarrierCounters(ab *AccessBarrier) (int64, int64, uint64) {
	return ab.numAllocated, ab.numFreed, ab.freeSeqno
}

// VerifStatsRaw returns the raw global counters of the list.
func VerifStatsRaw(s *Skiplist) (levelNodes [MaxLevel + 1]int64, softDeletes, allocs, frees, used int64) {
	for i := range levelNodes {
		levelNodes[i] = atomic.LoadInt64(&s.Stats.levelNodesCount[i])
	}
	return levelNodes, atomic.LoadInt64(&s.Stats.softDeletes), atomic.LoadInt64(&s.Stats.nodeAllocs), atomic.LoadInt64(&s.Stats.nodeFrees), atomic.LoadInt64(&s.Stats.usedBytes)
}

// VerifBarrierCurrentLive returns the raw accessor count of the barrier's current (open) session.
func VerifBarrierCurrentLive(ab *AccessBarrier) int32 {
	bs := (*BarrierSession)(atomic.LoadPointer(&ab.session))
	if bs == nil || bs.liveCount == nil {
		return 0
	}
	return atomic.LoadInt32(bs.liveCount)
}
