package nodetable

// Read-only accessors added by the /verif overlay (never part of the repository).

import (
	"fmt"
	"sort"
)

// VerifDump returns a canonical description of the table's private state.
func VerifDump(nt *NodeTable) string {
	var hs []uint32
	for h := range nt.fastHT {
		hs = append(hs, h)
	}
	sort.Slice(hs, func(i, j int) bool { return hs[i] < hs[j] })
	s := fmt.Sprintf("f=%d s=%d c=%d|", nt.fastHTCount, nt.slowHTCount, nt.conflicts)
	for _, h := range hs {
		v := nt.fastHT[h]
		s += fmt.Sprintf("%d:%x/%v[", h, uintptr(decodePointer(v)), nt.hasConflict(v))
		for _, sv := range nt.slowHT[h] {
			s += fmt.Sprintf("%x,", uintptr(decodePointer(sv)))
		}
		s += "]"
	}
	var shs []uint32
	for h := range nt.slowHT {
		if _, ok := nt.fastHT[h]; !ok {
			shs = append(shs, h)
		}
	}
	sort.Slice(shs, func(i, j int) bool { return shs[i] < shs[j] })
	for _, h := range shs {
		s += fmt.Sprintf("ORPHAN%d:%d", h, len(nt.slowHT[h]))
	}
	return s
}
