#!/bin/sh
# Builds the /verif machinery from files on disk only (offline) and warms the build cache.
set -e
export GOFLAGS=-mod=mod GOPROXY=off GOSUMDB=off GOTOOLCHAIN=local
cd /verif
mkdir -p bin evidence replays
(cd instr && go build -o /verif/bin/vinstr .)
(cd cmd/vcheck && go build -o /verif/bin/vcheck .)
# warm the cache with one instrumented build of the harness, then discard it
d=$(mktemp -d)
/verif/bin/vcheck build "$d" >/dev/null
rm -rf "$d"
# engine selftest (toy programs with known bugs) and instrumentation fidelity (a subset of the
# repository's own tests against the instrumented build, free-running mode)
/verif/bin/vcheck selftest
/verif/bin/vcheck fidelity --quick
echo "verif setup ok"
