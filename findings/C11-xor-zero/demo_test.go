package nitro

// Plain reproduction of the known finding recorded for C11 (no explorer, no instrumentation).
// Copy into a scratch copy of the repository root and run on ONE cpu so that StoreToDisk writes a
// single shard (runtime.NumCPU() shards are written):
//
//	taskset -c 0 go test -vet=off -count=1 -run TestFindingC11XorZero .
//
// The four items have equal length and XOR to zero byte-wise, so their CRC32s XOR to zero and the
// shard's stored checksum is 0, the checksum of an empty shard.

import (
	"os"
	"path/filepath"
	"runtime"
	"testing"
)

func TestFindingC11XorZero(t *testing.T) {
	if runtime.NumCPU() != 1 {
		t.Skip("run under taskset -c 0 (one shard)")
	}
	for _, dmg := range []string{"shard-0[3]=0x00", "remove nitro.json"} {
		dir := t.TempDir()
		db := New()
		w := db.NewWriter()
		for _, k := range []string{"`1", "a1", "b1", "c1"} {
			w.Put([]byte(k))
		}
		snap, _ := db.NewSnapshot()
		if err := db.StoreToDisk(dir, snap, 1, nil); err != nil {
			t.Fatal(err)
		}
		snap.Close()
		db.Close()

		switch dmg {
		case "shard-0[3]=0x00":
			p := filepath.Join(dir, "data", "shard-0")
			bs, _ := os.ReadFile(p)
			bs[3] = 0
			os.WriteFile(p, bs, 0644)
		default:
			os.Remove(filepath.Join(dir, "nitro.json"))
		}

		db2 := New()
		s2, err := db2.LoadFromDisk(dir, 1, nil)
		if err != nil {
			t.Logf("%s: error returned (property holds): %v", dmg, err)
			continue
		}
		n := 0
		it := s2.NewIterator()
		for it.SeekFirst(); it.Valid(); it.Next() {
			n++
		}
		it.Close()
		if n != 4 {
			t.Errorf("%s: LoadFromDisk returned no error and %d items (Count=%d), stored 4", dmg, n, s2.Count())
		}
		s2.Close()
		db2.Close()
	}
}
