module vcheck

go 1.21
