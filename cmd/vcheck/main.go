// vcheck: driver of the /verif model-checking machinery.
//
//	vcheck <ID> [--tier quick|thorough] [--jobs regex] [--keep]
//	vcheck replay <file> [--trace]
//	vcheck build <outdir>        (instrument + build the harness, keep it)
//	vcheck fidelity              (run a subset of the repository's own tests against the instrumented build)
//
// Every invocation instruments the CURRENT working tree of the repository
// (nothing there is modified), builds the harness against it with
// `go build -overlay`, runs it and removes the scratch directory.
// Exit: 0 held / 1 VIOLATION / 2 machinery error.
package main

import (
	"fmt"
	"os"
	"os/exec"
	"path/filepath"
	"strings"
	"syscall"
)

var verifDir = "/verif"
var repoDir = "/repo"

func env() []string {
	e := os.Environ()
	e = append(e, "GOFLAGS=-mod=mod", "GOPROXY=off", "GOSUMDB=off", "GOTOOLCHAIN=local", "VERIF_DIR="+verifDir)
	return e
}

func run(dir string, name string, args ...string) error {
	cmd := exec.Command(name, args...)
	cmd.Dir = dir
	cmd.Env = env()
	cmd.Stdout = os.Stderr
	cmd.Stderr = os.Stderr
	return cmd.Run()
}

func die(format string, a ...interface{}) {
	msg := fmt.Sprintf(format, a...)
	fmt.Printf("ERROR: %s\n", msg)
	fmt.Fprintf(os.Stderr, "ERROR: %s\n", msg)
	os.Exit(2)
}

// prepare instruments the repository and builds the harness into work; returns the binary path.
func prepare(work string) (string, string) {
	vinstr := filepath.Join(verifDir, "bin", "vinstr")
	if _, err := os.Stat(vinstr); err != nil {
		if err := run(filepath.Join(verifDir, "instr"), "go", "build", "-o", vinstr, "."); err != nil {
			die("cannot build vinstr: %v", err)
		}
	}
	gen := filepath.Join(work, "gen")
	args := []string{repoDir, gen, filepath.Join(verifDir, "rt"),
		filepath.Join(verifDir, "inject", "skiplist_zz_verif.go") + "=" + filepath.Join(repoDir, "skiplist", "zz_verif.go"),
		filepath.Join(verifDir, "inject", "nitro_zz_verif.go") + "=" + filepath.Join(repoDir, "zz_verif.go"),
		filepath.Join(verifDir, "inject", "nodetable_zz_verif.go") + "=" + filepath.Join(repoDir, "nodetable", "zz_verif.go"),
	}
	if err := run(verifDir, vinstr, args...); err != nil {
		die("instrumentation of %s failed: %v", repoDir, err)
	}
	overlay := filepath.Join(gen, "overlay.json")
	bin := filepath.Join(work, "vharness")
	buildArgs := []string{"build", "-overlay", overlay, "-o", bin}
	if repoDir != "/repo" {
		// another checkout of the repository (scratch worktree): same harness module, replace directive redirected
		mod, err := os.ReadFile(filepath.Join(verifDir, "harness", "go.mod"))
		if err != nil {
			die("read harness go.mod: %v", err)
		}
		alt := filepath.Join(work, "harness.mod")
		os.WriteFile(alt, []byte(strings.Replace(string(mod), "=> /repo", "=> "+repoDir, 1)), 0644)
		buildArgs = append(buildArgs, "-modfile="+alt)
	}
	buildArgs = append(buildArgs, ".")
	if err := run(filepath.Join(verifDir, "harness"), "go", buildArgs...); err != nil {
		die("instrumented build of the harness against %s failed (see stderr): %v", repoDir, err)
	}
	return bin, overlay
}

func main() {
	if d := os.Getenv("VERIF_DIR"); d != "" {
		verifDir = d
	}
	if d := os.Getenv("VERIF_REPO"); d != "" {
		repoDir = d
	}
	if len(os.Args) < 2 {
		die("usage: vcheck <ID> [--tier quick|thorough] | replay <file> | build <dir> | fidelity")
	}
	if os.Args[1] == "build" {
		out := os.Args[2]
		os.MkdirAll(out, 0755)
		bin, _ := prepare(out)
		fmt.Println(bin)
		return
	}
	work, err := os.MkdirTemp("", "vcheck-")
	if err != nil {
		die("mktemp: %v", err)
	}
	keep := false
	var pass []string
	for _, a := range os.Args[1:] {
		if a == "--keep" {
			keep = true
		} else {
			pass = append(pass, a)
		}
	}
	cleanup := func() {
		if !keep {
			os.RemoveAll(work)
		} else {
			fmt.Fprintln(os.Stderr, "kept", work)
		}
	}
	bin, overlay := prepare(work)
	code := 0
	switch pass[0] {
	case "fidelity":
		// the repository's own fast tests against the instrumented build, free-running mode
		pat := "TestInsert$|TestInsertDuplicates|TestDelete$|TestLoadStoreDisk|TestLoadDeltaStoreDisk|TestVisitor|TestDiskCorruption|TestCloseWithActiveIterators|TestNodeList|TestFullScan|TestVisitorError|TestStoreDiskShutdown|TestSnapshotStats|TestBuilder|TestMerger|TestNodeDCAS|TestGetRangeSplitItems|TestSimple|TestInsertFastHT|TestDeleteFastHT1|TestLargeConflicts"
		for _, a := range pass[1:] {
			if a == "--quick" {
				pat = "TestInsert$|TestDelete$|TestNodeList|TestVisitorError|TestCloseWithActiveIterators|TestBuilder|TestMerger|TestNodeDCAS|TestGetRangeSplitItems|TestSimple|TestInsertFastHT|TestDeleteFastHT1"
			}
		}
		// build the test binaries against the overlay, run them from a scratch directory (the repository's
		// tests write backup files into their working directory; /repo must stay untouched)
		for _, pkg := range []string{".", "./skiplist", "./nodetable"} {
			name := filepath.Base(filepath.Join(repoDir, pkg)) + ".test"
			bin := filepath.Join(work, name)
			b := exec.Command("go", "test", "-overlay", overlay, "-vet=off", "-c", "-o", bin, pkg)
			b.Dir = repoDir
			b.Env = env()
			b.Stdout = os.Stderr
			b.Stderr = os.Stderr
			if err := b.Run(); err != nil {
				fmt.Println("ERROR: cannot build the instrumented tests of", pkg, ":", err)
				code = 2
				break
			}
			scratch := filepath.Join(work, "run-"+name)
			os.MkdirAll(scratch, 0755)
			t := exec.Command(bin, "-test.count=1", "-test.run", pat)
			t.Dir = scratch
			t.Env = env()
			out, err := t.CombinedOutput()
			lines := strings.Split(strings.TrimSpace(string(out)), "\n")
			fmt.Println("fidelity", pkg, ":", lines[len(lines)-1])
			if err != nil {
				os.Stderr.Write(out)
				fmt.Println("ERROR: fidelity tests failed on the instrumented build of", pkg, ":", err)
				code = 2
				break
			}
		}
	default:
		args := pass
		if pass[0] != "replay" && pass[0] != "list" && pass[0] != "selftest" {
			args = append([]string{"check"}, pass...)
		}
		cmd := exec.Command(bin, args...)
		cmd.Env = env()
		cmd.Stdout = os.Stdout
		cmd.Stderr = os.Stderr
		cmd.Stdin = os.Stdin
		if err := cmd.Run(); err != nil {
			if ee, ok := err.(*exec.ExitError); ok {
				if ws, ok := ee.Sys().(syscall.WaitStatus); ok && ws.Exited() {
					code = ws.ExitStatus()
				} else {
					fmt.Println("ERROR: harness terminated abnormally:", err)
					code = 2
				}
			} else {
				fmt.Println("ERROR:", err)
				code = 2
			}
		}
	}
	cleanup()
	_ = strings.TrimSpace
	os.Exit(code)
}
