// Package sync shadows sync for the instrumented nitro packages: locks, wait
// groups and Once are decided by the scheduler while an execution is active
// and fall through to the real primitives otherwise.
package sync

import (
	"sync"
	"unsafe"

	"github.com/couchbase/nitro/zzverif/vrt"
)

type Locker = sync.Locker
type Pool = sync.Pool
type Map = sync.Map
type Cond = sync.Cond

func NewCond(l Locker) *Cond { return sync.NewCond(l) }

type Mutex struct {
	real   sync.Mutex
	locked bool
}

func (m *Mutex) Lock() {
	if !vrt.Active() {
		if vrt.X == nil {
			m.real.Lock()
		}
		return
	}
	vrt.BlockingPoint(vrt.OpLock, unsafe.Pointer(m), func() bool { return !m.locked })
	m.locked = true
}

func (m *Mutex) TryLock() bool {
	if !vrt.Active() {
		if vrt.X == nil {
			return m.real.TryLock()
		}
		return true
	}
	vrt.Point(vrt.OpLock, unsafe.Pointer(m), 8)
	if m.locked {
		return false
	}
	m.locked = true
	return true
}

func (m *Mutex) Unlock() {
	if !vrt.Active() {
		if vrt.X == nil {
			m.real.Unlock()
		}
		return
	}
	vrt.Point(vrt.OpUnlock, unsafe.Pointer(m), 8)
	if !m.locked {
		panic("sync: unlock of unlocked mutex")
	}
	m.locked = false
}

type RWMutex struct {
	real    sync.RWMutex
	writer  bool
	readers int
}

func (m *RWMutex) Lock() {
	if !vrt.Active() {
		if vrt.X == nil {
			m.real.Lock()
		}
		return
	}
	vrt.BlockingPoint(vrt.OpLock, unsafe.Pointer(m), func() bool { return !m.writer && m.readers == 0 })
	m.writer = true
}

func (m *RWMutex) Unlock() {
	if !vrt.Active() {
		if vrt.X == nil {
			m.real.Unlock()
		}
		return
	}
	vrt.Point(vrt.OpUnlock, unsafe.Pointer(m), 8)
	if !m.writer {
		panic("sync: Unlock of unlocked RWMutex")
	}
	m.writer = false
}

func (m *RWMutex) RLock() {
	if !vrt.Active() {
		if vrt.X == nil {
			m.real.RLock()
		}
		return
	}
	vrt.BlockingPoint(vrt.OpRLock, unsafe.Pointer(m), func() bool { return !m.writer })
	m.readers++
}

func (m *RWMutex) RUnlock() {
	if !vrt.Active() {
		if vrt.X == nil {
			m.real.RUnlock()
		}
		return
	}
	vrt.Point(vrt.OpRUnlock, unsafe.Pointer(m), 8)
	if m.readers <= 0 {
		panic("sync: RUnlock of unlocked RWMutex")
	}
	m.readers--
}

func (m *RWMutex) RLocker() Locker { return (*rlocker)(m) }

type rlocker RWMutex

func (r *rlocker) Lock()   { (*RWMutex)(r).RLock() }
func (r *rlocker) Unlock() { (*RWMutex)(r).RUnlock() }

type WaitGroup struct {
	real sync.WaitGroup
	n    int
}

func (w *WaitGroup) Add(d int) {
	if !vrt.Active() {
		if vrt.X == nil {
			w.real.Add(d)
		}
		return
	}
	vrt.Point(vrt.OpWGAdd, unsafe.Pointer(w), 8)
	w.n += d
	if w.n < 0 {
		panic("sync: negative WaitGroup counter")
	}
}

func (w *WaitGroup) Done() { w.Add(-1) }

func (w *WaitGroup) Wait() {
	if !vrt.Active() {
		if vrt.X == nil {
			w.real.Wait()
		}
		return
	}
	vrt.BlockingPoint(vrt.OpWGWait, unsafe.Pointer(w), func() bool { return w.n == 0 })
}

type Once struct {
	real    sync.Once
	done    bool
	running bool
}

func (o *Once) Do(f func()) {
	if !vrt.Active() {
		if vrt.X == nil {
			o.real.Do(f)
		}
		return
	}
	vrt.BlockingPoint(vrt.OpOnce, unsafe.Pointer(o), func() bool { return !o.running })
	if o.done {
		return
	}
	o.running = true
	defer func() { o.done = true; o.running = false }()
	f()
}
