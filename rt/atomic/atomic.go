// Package atomic shadows sync/atomic for the instrumented nitro packages:
// every operation is a scheduling point of the controlled runtime.
package atomic

import (
	"sync/atomic"
	"unsafe"

	"github.com/couchbase/nitro/zzverif/vrt"
)

func p(k vrt.OpKind, a unsafe.Pointer, n uintptr) { vrt.Point(k, a, n) }

func LoadInt32(a *int32) int32    { p(vrt.OpLoad, unsafe.Pointer(a), 4); return atomic.LoadInt32(a) }
func LoadInt64(a *int64) int64    { p(vrt.OpLoad, unsafe.Pointer(a), 8); return atomic.LoadInt64(a) }
func LoadUint32(a *uint32) uint32 { p(vrt.OpLoad, unsafe.Pointer(a), 4); return atomic.LoadUint32(a) }
func LoadUint64(a *uint64) uint64 { p(vrt.OpLoad, unsafe.Pointer(a), 8); return atomic.LoadUint64(a) }
func LoadUintptr(a *uintptr) uintptr {
	p(vrt.OpLoad, unsafe.Pointer(a), 8)
	return atomic.LoadUintptr(a)
}
func LoadPointer(a *unsafe.Pointer) unsafe.Pointer {
	p(vrt.OpLoad, unsafe.Pointer(a), 8)
	return atomic.LoadPointer(a)
}
func StoreInt32(a *int32, v int32)    { p(vrt.OpStore, unsafe.Pointer(a), 4); atomic.StoreInt32(a, v) }
func StoreInt64(a *int64, v int64)    { p(vrt.OpStore, unsafe.Pointer(a), 8); atomic.StoreInt64(a, v) }
func StoreUint32(a *uint32, v uint32) { p(vrt.OpStore, unsafe.Pointer(a), 4); atomic.StoreUint32(a, v) }
func StoreUint64(a *uint64, v uint64) { p(vrt.OpStore, unsafe.Pointer(a), 8); atomic.StoreUint64(a, v) }
func StoreUintptr(a *uintptr, v uintptr) {
	p(vrt.OpStore, unsafe.Pointer(a), 8)
	atomic.StoreUintptr(a, v)
}
func StorePointer(a *unsafe.Pointer, v unsafe.Pointer) {
	p(vrt.OpStore, unsafe.Pointer(a), 8)
	atomic.StorePointer(a, v)
}
func AddInt32(a *int32, d int32) int32 {
	p(vrt.OpRMW, unsafe.Pointer(a), 4)
	return atomic.AddInt32(a, d)
}
func AddInt64(a *int64, d int64) int64 {
	p(vrt.OpRMW, unsafe.Pointer(a), 8)
	return atomic.AddInt64(a, d)
}
func AddUint32(a *uint32, d uint32) uint32 {
	p(vrt.OpRMW, unsafe.Pointer(a), 4)
	return atomic.AddUint32(a, d)
}
func AddUint64(a *uint64, d uint64) uint64 {
	p(vrt.OpRMW, unsafe.Pointer(a), 8)
	return atomic.AddUint64(a, d)
}
func AddUintptr(a *uintptr, d uintptr) uintptr {
	p(vrt.OpRMW, unsafe.Pointer(a), 8)
	return atomic.AddUintptr(a, d)
}
func SwapInt32(a *int32, v int32) int32 {
	p(vrt.OpRMW, unsafe.Pointer(a), 4)
	return atomic.SwapInt32(a, v)
}
func SwapInt64(a *int64, v int64) int64 {
	p(vrt.OpRMW, unsafe.Pointer(a), 8)
	return atomic.SwapInt64(a, v)
}
func SwapUint32(a *uint32, v uint32) uint32 {
	p(vrt.OpRMW, unsafe.Pointer(a), 4)
	return atomic.SwapUint32(a, v)
}
func SwapUint64(a *uint64, v uint64) uint64 {
	p(vrt.OpRMW, unsafe.Pointer(a), 8)
	return atomic.SwapUint64(a, v)
}
func SwapUintptr(a *uintptr, v uintptr) uintptr {
	p(vrt.OpRMW, unsafe.Pointer(a), 8)
	return atomic.SwapUintptr(a, v)
}
func SwapPointer(a *unsafe.Pointer, v unsafe.Pointer) unsafe.Pointer {
	p(vrt.OpRMW, unsafe.Pointer(a), 8)
	return atomic.SwapPointer(a, v)
}
func CompareAndSwapInt32(a *int32, o, n int32) bool {
	p(vrt.OpRMW, unsafe.Pointer(a), 4)
	return atomic.CompareAndSwapInt32(a, o, n)
}
func CompareAndSwapInt64(a *int64, o, n int64) bool {
	p(vrt.OpRMW, unsafe.Pointer(a), 8)
	return atomic.CompareAndSwapInt64(a, o, n)
}
func CompareAndSwapUint32(a *uint32, o, n uint32) bool {
	p(vrt.OpRMW, unsafe.Pointer(a), 4)
	return atomic.CompareAndSwapUint32(a, o, n)
}
func CompareAndSwapUint64(a *uint64, o, n uint64) bool {
	p(vrt.OpRMW, unsafe.Pointer(a), 8)
	return atomic.CompareAndSwapUint64(a, o, n)
}
func CompareAndSwapUintptr(a *uintptr, o, n uintptr) bool {
	p(vrt.OpRMW, unsafe.Pointer(a), 8)
	return atomic.CompareAndSwapUintptr(a, o, n)
}
func CompareAndSwapPointer(a *unsafe.Pointer, o, n unsafe.Pointer) bool {
	p(vrt.OpRMW, unsafe.Pointer(a), 8)
	return atomic.CompareAndSwapPointer(a, o, n)
}

// Typed atomics (Go 1.19+), in case an edit uses them.

type Int32 struct{ v int32 }

func (x *Int32) Load() int32                    { return LoadInt32(&x.v) }
func (x *Int32) Store(v int32)                  { StoreInt32(&x.v, v) }
func (x *Int32) Add(d int32) int32              { return AddInt32(&x.v, d) }
func (x *Int32) Swap(v int32) int32             { return SwapInt32(&x.v, v) }
func (x *Int32) CompareAndSwap(o, n int32) bool { return CompareAndSwapInt32(&x.v, o, n) }

type Int64 struct{ v int64 }

func (x *Int64) Load() int64                    { return LoadInt64(&x.v) }
func (x *Int64) Store(v int64)                  { StoreInt64(&x.v, v) }
func (x *Int64) Add(d int64) int64              { return AddInt64(&x.v, d) }
func (x *Int64) Swap(v int64) int64             { return SwapInt64(&x.v, v) }
func (x *Int64) CompareAndSwap(o, n int64) bool { return CompareAndSwapInt64(&x.v, o, n) }

type Uint32 struct{ v uint32 }

func (x *Uint32) Load() uint32                    { return LoadUint32(&x.v) }
func (x *Uint32) Store(v uint32)                  { StoreUint32(&x.v, v) }
func (x *Uint32) Add(d uint32) uint32             { return AddUint32(&x.v, d) }
func (x *Uint32) Swap(v uint32) uint32            { return SwapUint32(&x.v, v) }
func (x *Uint32) CompareAndSwap(o, n uint32) bool { return CompareAndSwapUint32(&x.v, o, n) }

type Uint64 struct{ v uint64 }

func (x *Uint64) Load() uint64                    { return LoadUint64(&x.v) }
func (x *Uint64) Store(v uint64)                  { StoreUint64(&x.v, v) }
func (x *Uint64) Add(d uint64) uint64             { return AddUint64(&x.v, d) }
func (x *Uint64) Swap(v uint64) uint64            { return SwapUint64(&x.v, v) }
func (x *Uint64) CompareAndSwap(o, n uint64) bool { return CompareAndSwapUint64(&x.v, o, n) }

type Bool struct{ v uint32 }

func b2u(b bool) uint32 {
	if b {
		return 1
	}
	return 0
}
func (x *Bool) Load() bool                    { return LoadUint32(&x.v) != 0 }
func (x *Bool) Store(v bool)                  { StoreUint32(&x.v, b2u(v)) }
func (x *Bool) Swap(v bool) bool              { return SwapUint32(&x.v, b2u(v)) != 0 }
func (x *Bool) CompareAndSwap(o, n bool) bool { return CompareAndSwapUint32(&x.v, b2u(o), b2u(n)) }

type Pointer[T any] struct{ v unsafe.Pointer }

func (x *Pointer[T]) Load() *T     { return (*T)(LoadPointer(&x.v)) }
func (x *Pointer[T]) Store(v *T)   { StorePointer(&x.v, unsafe.Pointer(v)) }
func (x *Pointer[T]) Swap(v *T) *T { return (*T)(SwapPointer(&x.v, unsafe.Pointer(v))) }
func (x *Pointer[T]) CompareAndSwap(o, n *T) bool {
	return CompareAndSwapPointer(&x.v, unsafe.Pointer(o), unsafe.Pointer(n))
}

type Value = atomic.Value
