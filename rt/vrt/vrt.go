// Package vrt is the controlled runtime used by /verif to model-check
// couchbase/nitro: a cooperative scheduler that owns every synchronisation
// step of the instrumented code. Exactly one logical thread runs at a time;
// at every scheduling point (SP) the running thread publishes its pending
// operation and the scheduler decides who performs the next step. The
// explorer (explore.go) enumerates the decisions.
//
// When no execution is active (X == nil) every shim falls through to the real
// primitive, so the instrumented packages behave exactly like the originals.
package vrt

import (
	"fmt"
	"runtime"
	"runtime/debug"
	"strings"
	"sync"
	"sync/atomic"
	"unsafe"
)

type OpKind uint8

const (
	OpNone OpKind = iota
	OpLoad
	OpStore
	OpRMW
	OpLock
	OpUnlock
	OpWGAdd
	OpWGWait
	OpSend
	OpRecv
	OpClose
	OpSelect
	OpSpawn
	OpYield
	OpExit
	OpFence
	OpJoin
	OpWaitIdle
	OpStart
	OpOnce
	OpRLock
	OpRUnlock
	OpIO
)

var kindNames = [...]string{"none", "load", "store", "rmw", "lock", "unlock", "wgadd", "wgwait", "send", "recv", "close", "select", "spawn", "yield", "exit", "fence", "join", "waitidle", "start", "once", "rlock", "runlock", "io"}

func (k OpKind) String() string { return kindNames[k] }

func (k OpKind) isWrite() bool {
	switch k {
	case OpLoad, OpNone, OpYield, OpWaitIdle, OpJoin, OpFence:
		return false
	}
	return true
}

type Op struct {
	Kind OpKind
	Addr uintptr
	Size uintptr
}

type Thread struct {
	ID      int
	Name    string
	wake    chan struct{}
	exited  chan struct{}
	done    bool
	pending Op
	enabled func() bool // nil = always enabled
	// completion by a partner (channel rendez-vous)
	completed bool
	selIdx    int
	cases     []SelCase // pending select cases
	yieldMark uint64
	// Local is free for the harness (per-thread data)
	Local interface{}
}

// Choice is one recorded decision of an execution.
type Choice struct {
	N          int    // number of alternatives
	Idx        int    // alternative taken
	RunEnabled bool   // scheduling choice with the running thread still enabled (alt != 0 is a preemption)
	Data       bool   // data choice (costs nothing)
	Sig        uint32 // signature of the alternatives (determinism guard)
}

type Verdict struct {
	Kind string // "", "deadlock", "livelock", "panic", "violation", "horizon"
	Msg  string
	Site string // nitro functions on the stack at detection (for known-finding signatures)
	// FaultAddr is the faulting address when the panic was a memory fault (SetPanicOnFault).
	FaultAddr uintptr
}

type Exec struct {
	threads  []*Thread
	cur      *Thread
	prefix   []int
	Choices  []Choice
	Steps    int
	progress uint64
	noBranch int
	aborting bool
	Verdict  Verdict
	chans    map[unsafe.Pointer]*chanState
	Trace    []string
	tracing  bool
	Horizon  int
	ObsHash  uint64
	Switches int
	runLen   int       // consecutive steps of the running thread
	ebuf     []*Thread // scratch for enabledSet
	expect   []Choice  // recorded choices of the parent execution for the determinism guard
	// Notes are soft violations recorded without unwinding (e.g. from inside callbacks).
	Notes []Verdict
}

// SpinLimit is the number of consecutive steps after which a running thread is deprioritised
// in favour of other enabled threads (fair scheduling of yield-free busy-wait loops).
var SpinLimit = 2000

// Heartbeat counts scheduling points across executions (read by the worker's watchdog).
var Heartbeat uint64

// SnapshotChoices returns the choice indexes recorded so far by the active execution (racy read,
// used only by the watchdog to report where a thread stopped reaching scheduling points).
func SnapshotChoices() []int {
	x := X
	if x == nil {
		return nil
	}
	cs := x.Choices
	out := make([]int, 0, len(cs))
	for _, c := range cs {
		out = append(out, c.Idx)
	}
	return out
}

// X is the active execution; nil means free-running mode (all shims pass through).
var X *Exec

// AccessHook, when set, is called with the address of every instrumented atomic access
// before it is performed (guard allocator check).
var AccessHook func(addr uintptr, size uintptr, kind OpKind)

// OpHook, when set, is called after a thread has been scheduled to perform a synchronisation
// operation (lock, unlock, atomics, ...), just before it performs it.
var OpHook func(t *Thread, op Op)

// FaultClassifier, when set, maps the address of a memory fault (a panic raised through
// debug.SetPanicOnFault) to a violation kind; "" keeps the generic "panic".
var FaultClassifier func(addr uintptr) string

func panicVerdict(r interface{}) Verdict {
	v := Verdict{Kind: "panic", Msg: fmt.Sprintf("%v\n%s", r, trimStack(debug.Stack())), Site: panicSite(), FaultAddr: faultAddr(r)}
	if v.FaultAddr != 0 && FaultClassifier != nil {
		if k := FaultClassifier(v.FaultAddr); k != "" {
			v.Kind = k
		}
	}
	return v
}

type abortSentinel struct{}

// NondeterminismError is raised (as a panic out of Run) when a replayed prefix diverges.
type NondeterminismError struct{ Msg string }

func (e NondeterminismError) Error() string { return "NONDETERMINISM: " + e.Msg }

func (x *Exec) active() bool { return x != nil && !x.aborting }

// Active reports whether an exploration is running (shims take the modelled path).
func Active() bool { return X.active() }

// Aborting reports whether the current execution is being torn down.
func Aborting() bool { return X != nil && X.aborting }

// Cur returns the running logical thread (nil in free-running mode).
func Cur() *Thread {
	if X == nil {
		return nil
	}
	return X.cur
}

// CurID returns the id of the running thread, -1 outside an execution.
func CurID() int {
	if X == nil || X.cur == nil {
		return -1
	}
	return X.cur.ID
}

func (x *Exec) enabledSet(me *Thread) []*Thread {
	e := x.ebuf[:0]
	if me != nil && !me.done && x.isEnabled(me) {
		e = append(e, me)
	}
	for _, t := range x.threads {
		if t != me && !t.done && x.isEnabled(t) {
			e = append(e, t)
		}
	}
	x.ebuf = e
	return e
}

func (x *Exec) isEnabled(t *Thread) bool {
	if t.completed {
		return true
	}
	switch t.pending.Kind {
	case OpYield:
		return x.progress > t.yieldMark
	case OpWaitIdle:
		return false // handled specially
	}
	if t.enabled == nil {
		return true
	}
	return t.enabled()
}

func sigOf(e []*Thread) uint32 {
	h := uint32(2166136261)
	for _, t := range e {
		h = (h ^ uint32(t.ID)) * 16777619
		h = (h ^ uint32(t.pending.Kind)) * 16777619
	}
	return h
}

func (x *Exec) choose(n int, runEnabled, data bool, sig uint32) int {
	if n <= 1 {
		return 0
	}
	if x.noBranch > 0 && !data {
		return 0
	}
	idx := 0
	pos := len(x.Choices)
	if pos < len(x.prefix) {
		idx = x.prefix[pos]
		if idx >= n || idx < 0 {
			panic(NondeterminismError{fmt.Sprintf("replay choice %d out of range %d at position %d", idx, n, pos)})
		}
		if pos < len(x.expect) {
			ex := x.expect[pos]
			if ex.N != n || ex.Sig != sig || ex.Data != data {
				panic(NondeterminismError{fmt.Sprintf("at choice %d expected n=%d sig=%x data=%v got n=%d sig=%x data=%v", pos, ex.N, ex.Sig, ex.Data, n, sig, data)})
			}
		}
	}
	x.Choices = append(x.Choices, Choice{N: n, Idx: idx, RunEnabled: runEnabled, Data: data, Sig: sig})
	return idx
}

func (x *Exec) idleWaiter() *Thread {
	for _, t := range x.threads {
		if !t.done && t.pending.Kind == OpWaitIdle && !t.completed {
			return t
		}
	}
	return nil
}

func (x *Exec) stuckKind() string {
	for _, t := range x.threads {
		if !t.done && t.pending.Kind == OpYield {
			return "livelock"
		}
	}
	return "deadlock"
}

// sched is called by the running thread `me` after it published its pending op.
// It returns when `me` has been chosen to perform that op.
func (x *Exec) sched(me *Thread) {
	x.Steps++
	atomic.AddUint64(&Heartbeat, 1)
	if x.Horizon > 0 && x.Steps > x.Horizon {
		x.fail("hang", "step horizon exceeded, the execution does not terminate: "+x.describeBlocked())
	}
	e := x.enabledSet(me)
	// Fairness for busy-wait loops that contain no yield (e.g. retry-until-unlinked): a thread that has
	// run SpinLimit consecutive steps while others are enabled is treated as if it had yielded.
	if len(e) > 1 && e[0] == me && x.runLen > SpinLimit {
		e = e[1:]
	}
	if len(e) == 0 {
		// nobody enabled: a thread in WaitIdle becomes enabled now
		if t := x.idleWaiter(); t != nil {
			e = append(e, t)
		}
	}
	if len(e) == 0 {
		x.fail(x.stuckKind(), x.describeBlocked())
	}
	runEnabled := e[0] == me
	idx := x.choose(len(e), runEnabled, false, sigOf(e))
	next := e[idx]
	x.ObsHash = (x.ObsHash ^ uint64(next.ID)<<8 ^ uint64(next.pending.Kind)) * 1099511628211
	if next == me {
		x.runLen++
		return
	}
	x.runLen = 0
	x.Switches++
	x.cur = next
	next.wake <- struct{}{}
	<-me.wake
	if x.aborting {
		panic(abortSentinel{})
	}
	if x.cur != me {
		panic("scheduler: woken thread is not current")
	}
}

func (x *Exec) describeBlocked() string {
	s := ""
	for _, t := range x.threads {
		if !t.done {
			s += fmt.Sprintf("[%s:%s] ", t.Name, t.pending.Kind)
		}
	}
	return s
}

// callSite returns the chain of non-runtime, non-shim functions on the stack.
func callSite(skip, max int) string {
	pcs := make([]uintptr, 40)
	n := runtime.Callers(skip, pcs)
	fr := runtime.CallersFrames(pcs[:n])
	var parts []string
	for {
		f, more := fr.Next()
		fn := f.Function
		if fn != "" && !strings.Contains(fn, "zzverif") && !strings.HasPrefix(fn, "runtime.") && !strings.HasPrefix(fn, "main.") && !strings.HasPrefix(fn, "vharness") {
			parts = append(parts, fn[strings.LastIndex(fn, "/")+1:])
			if len(parts) >= max {
				break
			}
		}
		if !more {
			break
		}
	}
	return strings.Join(parts, " < ")
}

func (x *Exec) fail(kind, msg string) {
	if x.Verdict.Kind == "" {
		x.Verdict = Verdict{Kind: kind, Msg: msg, Site: callSite(3, 4)}
	}
	me := x.cur
	x.aborting = true
	if me != x.threads[0] {
		// hand control to main, which is parked; it unwinds and Run reaps everybody
		me.done = true
		x.cur = x.threads[0]
		x.threads[0].wake <- struct{}{}
	}
	panic(abortSentinel{})
}

// Fail records a harness-detected violation and aborts the execution.
func Fail(kind, msg string) {
	x := X
	if x == nil {
		panic(kind + ": " + msg)
	}
	if x.aborting {
		return
	}
	x.fail(kind, msg)
}

// Note records a violation without unwinding the running thread (for use inside callbacks
// where a panic would be swallowed or unsafe). The execution continues.
func Note(kind, msg string) {
	x := X
	if x == nil {
		return
	}
	x.Notes = append(x.Notes, Verdict{Kind: kind, Msg: msg, Site: callSite(2, 4)})
}

func (x *Exec) trace(t *Thread, op Op, extra string) {
	if x.tracing {
		x.Trace = append(x.Trace, fmt.Sprintf("%5d %-8s %-7s %#x  %s %s", x.Steps, t.Name, op.Kind, op.Addr, callSite(4, 3), extra))
	}
}

// Tracef appends a harness line to the trace (only when tracing).
func Tracef(format string, a ...interface{}) {
	x := X
	if x != nil && x.tracing {
		name := "?"
		if x.cur != nil {
			name = x.cur.Name
		}
		x.Trace = append(x.Trace, fmt.Sprintf("%5d %-8s ## ", x.Steps, name)+fmt.Sprintf(format, a...))
	}
}

// point is the generic scheduling point for always-enabled operations.
func point(kind OpKind, addr unsafe.Pointer, size uintptr) {
	x := X
	if !x.active() {
		return
	}
	me := x.cur
	me.pending = Op{kind, uintptr(addr), size}
	me.enabled = nil
	x.sched(me)
	if kind.isWrite() {
		x.progress++
	}
	if AccessHook != nil && (kind == OpLoad || kind == OpStore || kind == OpRMW) {
		AccessHook(uintptr(addr), size, kind)
	}
	if OpHook != nil {
		OpHook(me, me.pending)
	}
	x.trace(me, me.pending, "")
}

// FineMode makes the plain-store points inserted by the instrumenter active.
var FineMode bool

// PlainStore is called before every plain store to possibly shared memory in the instrumented
// packages; it is a scheduling point only in fine mode.
func PlainStore() {
	if FineMode {
		point(OpStore, nil, 0)
	}
}

// Point is an always-enabled scheduling point (atomic shims, harness callbacks).
func Point(kind OpKind, addr unsafe.Pointer, size uintptr) { point(kind, addr, size) }

// BlockingPoint publishes an op that is enabled only when en() holds.
func BlockingPoint(kind OpKind, addr unsafe.Pointer, en func() bool) {
	x := X
	if !x.active() {
		return
	}
	me := x.cur
	me.pending = Op{kind, uintptr(addr), 8}
	me.enabled = en
	x.sched(me)
	me.enabled = nil
	x.progress++
	if OpHook != nil {
		OpHook(me, me.pending)
	}
	x.trace(me, me.pending, "")
}

// Yield models time.Sleep / runtime.Gosched inside polling loops: the thread becomes
// schedulable again only after some other thread performed a write-like step.
func Yield() {
	x := X
	if x == nil {
		return
	}
	if x.aborting {
		panic(abortSentinel{}) // break polling loops during tear-down
	}
	me := x.cur
	me.pending = Op{Kind: OpYield}
	me.yieldMark = x.progress
	me.enabled = nil
	x.sched(me)
	x.trace(me, me.pending, "")
}

// Choose is a data choice point with n alternatives (all enumerated, no preemption cost).
func Choose(n int) int {
	x := X
	if !x.active() || n <= 1 {
		return 0
	}
	return x.choose(n, false, true, uint32(n)*2654435761)
}

// ChoicesMade returns the number of choices recorded so far in this execution and the length of
// the replayed prefix (a state reached by a choice at index >= PrefixLen-1 is newly explored).
func ChoicesMade() (made, prefixLen int) {
	if X == nil {
		return 0, 0
	}
	return len(X.Choices), len(X.prefix)
}

// NoBranch switches recording of scheduling choice points off (deterministic default
// schedule: keep running, else lowest id) or on again. Calls nest.
func NoBranch(on bool) {
	if X != nil {
		if on {
			X.noBranch++
		} else if X.noBranch > 0 {
			X.noBranch--
		}
	}
}

// WaitIdle blocks the caller until no other thread is enabled (all background work drained).
func WaitIdle() {
	x := X
	if !x.active() {
		return
	}
	me := x.cur
	me.pending = Op{Kind: OpWaitIdle}
	me.enabled = nil
	x.sched(me)
	x.trace(me, me.pending, "")
}

// Fence is a harness-level scheduling point marking call/return of an API operation.
// It returns the logical time (global step counter).
func Fence() int {
	x := X
	if !x.active() {
		return 0
	}
	point(OpFence, nil, 0)
	return x.Steps
}

// Now returns the global step counter (logical time).
func Now() int {
	if X == nil {
		return 0
	}
	return X.Steps
}

func (x *Exec) newThread(name string) *Thread {
	t := &Thread{ID: len(x.threads), Name: name, wake: make(chan struct{}, 1), exited: make(chan struct{})}
	x.threads = append(x.threads, t)
	return t
}

// Go starts fn as a new logical thread.
func Go(fn func()) *Thread { return GoNamed("", fn) }

func GoNamed(name string, fn func()) *Thread {
	x := X
	if !x.active() {
		if x != nil && x.aborting {
			return nil
		}
		go fn()
		return nil
	}
	t := x.newThread(name)
	if name == "" {
		t.Name = fmt.Sprintf("g%d", t.ID)
	}
	t.pending = Op{Kind: OpStart}
	go func() {
		defer close(t.exited)
		debug.SetPanicOnFault(true)
		<-t.wake
		if x.aborting {
			return
		}
		defer func() {
			if r := recover(); r != nil {
				if _, ok := r.(abortSentinel); ok {
					return
				}
				if nd, ok := r.(NondeterminismError); ok {
					x.Verdict = Verdict{Kind: "nondeterminism", Msg: nd.Msg}
					x.threadCrashed(t)
					return
				}
				// real panic inside the code under test
				if x.Verdict.Kind == "" {
					x.Verdict = panicVerdict(r)
				}
				x.threadCrashed(t)
			}
		}()
		fn()
		x.exit(t)
	}()
	point(OpSpawn, unsafe.Pointer(t), 0)
	return t
}

func faultAddr(r interface{}) uintptr {
	if ae, ok := r.(interface{ Addr() uintptr }); ok {
		return ae.Addr()
	}
	return 0
}

func trimStack(b []byte) string {
	s := string(b)
	if len(s) > 6000 {
		s = s[:6000]
	}
	return s
}

// panicSite extracts the nitro frames below the panic from the current stack.
func panicSite() string {
	pcs := make([]uintptr, 60)
	n := runtime.Callers(3, pcs)
	fr := runtime.CallersFrames(pcs[:n])
	var parts []string
	seenPanic := false
	for {
		f, more := fr.Next()
		fn := f.Function
		if strings.HasPrefix(fn, "runtime.gopanic") || strings.HasPrefix(fn, "runtime.sigpanic") || strings.HasPrefix(fn, "runtime.panic") {
			seenPanic = true
			parts = parts[:0]
		} else if seenPanic && fn != "" && !strings.Contains(fn, "zzverif") && !strings.HasPrefix(fn, "runtime.") {
			parts = append(parts, fn[strings.LastIndex(fn, "/")+1:])
			if len(parts) >= 4 {
				break
			}
		}
		if !more {
			break
		}
	}
	return strings.Join(parts, " < ")
}

// threadCrashed: a thread panicked for real; stop the execution by waking thread 0 in abort mode.
func (x *Exec) threadCrashed(t *Thread) {
	t.done = true
	x.aborting = true
	// hand control to main (thread 0) which is parked; it will see aborting and unwind
	x.cur = x.threads[0]
	x.threads[0].wake <- struct{}{}
}

func (x *Exec) exit(me *Thread) {
	if x.aborting {
		return
	}
	me.done = true
	me.pending = Op{Kind: OpExit}
	x.progress++
	x.Steps++
	e := x.enabledSet(nil)
	if len(e) == 0 {
		if t := x.idleWaiter(); t != nil {
			e = append(e, t)
		}
	}
	if len(e) == 0 {
		// nobody can run: deadlock (main never exits through here)
		if x.Verdict.Kind == "" {
			x.Verdict = Verdict{Kind: x.stuckKind(), Msg: x.describeBlocked()}
		}
		x.aborting = true
		x.cur = x.threads[0]
		x.threads[0].wake <- struct{}{}
		return
	}
	idx := 0
	func() {
		defer func() {
			if r := recover(); r != nil {
				if nd, ok := r.(NondeterminismError); ok {
					x.Verdict = Verdict{Kind: "nondeterminism", Msg: nd.Msg}
					x.aborting = true
					idx = -1
					return
				}
				panic(r)
			}
		}()
		idx = x.choose(len(e), false, false, sigOf(e))
	}()
	if idx < 0 {
		x.cur = x.threads[0]
		x.threads[0].wake <- struct{}{}
		return
	}
	next := e[idx]
	x.ObsHash = (x.ObsHash ^ uint64(next.ID)<<8 ^ uint64(next.pending.Kind)) * 1099511628211
	x.Switches++
	x.cur = next
	next.wake <- struct{}{}
}

// Join blocks until all given threads are done.
func Join(ts ...*Thread) {
	x := X
	if !x.active() {
		return
	}
	me := x.cur
	me.pending = Op{Kind: OpJoin}
	me.enabled = func() bool {
		for _, t := range ts {
			if t != nil && !t.done {
				return false
			}
		}
		return true
	}
	x.sched(me)
	me.enabled = nil
}

// Result of one execution.
type Result struct {
	Choices  []Choice
	Steps    int
	Switches int
	Verdict  Verdict
	Notes    []Verdict
	Trace    []string
	ObsHash  uint64
}

var runMu sync.Mutex

// Run executes body as thread 0 under the scheduler following prefix, default choices afterwards.
func Run(prefix []int, expect []Choice, tracing bool, horizon int, body func()) (res Result) {
	runMu.Lock()
	defer runMu.Unlock()
	x := &Exec{prefix: prefix, expect: expect, chans: map[unsafe.Pointer]*chanState{}, tracing: tracing, Horizon: horizon}
	main := x.newThread("main")
	x.cur = main
	X = x
	func() {
		defer func() {
			if r := recover(); r != nil {
				if _, ok := r.(abortSentinel); ok {
					return
				}
				if nd, ok := r.(NondeterminismError); ok {
					x.Verdict = Verdict{Kind: "nondeterminism", Msg: nd.Msg}
					return
				}
				if x.Verdict.Kind == "" {
					x.Verdict = panicVerdict(r)
				}
			}
		}()
		debug.SetPanicOnFault(true)
		body()
	}()
	// kill whatever is left, one at a time
	x.aborting = true
	main.done = true
	for _, t := range x.threads[1:] {
		select {
		case <-t.exited:
		default:
			select {
			case t.wake <- struct{}{}:
			default:
			}
			<-t.exited
		}
	}
	X = nil
	AccessHook = nil
	OpHook = nil
	FaultClassifier = nil
	FineMode = false
	return Result{Choices: x.Choices, Steps: x.Steps, Switches: x.Switches, Verdict: x.Verdict, Notes: x.Notes, Trace: x.Trace, ObsHash: x.ObsHash}
}
