package vrt

import (
	"reflect"
	"unsafe"
)

// Modelled channels. The real Go channel object is used only as an identity (and for cap);
// queue contents, closing, rendez-vous and select are decided by the scheduler.

type chanState struct {
	cap    int
	buf    []interface{}
	closed bool
}

func chanPtr[T any](ch chan T) unsafe.Pointer { return *(*unsafe.Pointer)(unsafe.Pointer(&ch)) }

func (x *Exec) chanOf(p unsafe.Pointer, c int) *chanState {
	if p == nil {
		return nil
	}
	cs := x.chans[p]
	if cs == nil {
		cs = &chanState{cap: c}
		x.chans[p] = cs
	}
	return cs
}

// SelCase is one case of a modelled select.
type SelCase interface {
	state(x *Exec) *chanState
	isSend() bool
	sendVal() interface{}
	deliver(v interface{}, ok bool)
	reflectCase() reflect.SelectCase
	deliverReflect(v reflect.Value, ok bool)
}

type RecvOp[T any] struct {
	ch  chan T
	Val T
	Ok  bool
}

type SendOp[T any] struct {
	ch chan T
	v  T
}

func NewRecv[T any](ch chan T) *RecvOp[T]      { return &RecvOp[T]{ch: ch} }
func NewSend[T any](ch chan T, v T) *SendOp[T] { return &SendOp[T]{ch: ch, v: v} }

func (r *RecvOp[T]) state(x *Exec) *chanState { return x.chanOf(chanPtr(r.ch), cap(r.ch)) }
func (r *RecvOp[T]) isSend() bool             { return false }
func (r *RecvOp[T]) sendVal() interface{}     { return nil }
func (r *RecvOp[T]) deliver(v interface{}, ok bool) {
	if v != nil {
		r.Val = unbox[T](v)
	}
	r.Ok = ok
}
func (r *RecvOp[T]) reflectCase() reflect.SelectCase {
	return reflect.SelectCase{Dir: reflect.SelectRecv, Chan: reflect.ValueOf(r.ch)}
}
func (r *RecvOp[T]) deliverReflect(v reflect.Value, ok bool) {
	if ok {
		reflect.ValueOf(&r.Val).Elem().Set(v)
	}
	r.Ok = ok
}

func (s *SendOp[T]) state(x *Exec) *chanState       { return x.chanOf(chanPtr(s.ch), cap(s.ch)) }
func (s *SendOp[T]) isSend() bool                   { return true }
func (s *SendOp[T]) sendVal() interface{}           { return boxed[T]{s.v} }
func (s *SendOp[T]) deliver(v interface{}, ok bool) {}
func (s *SendOp[T]) reflectCase() reflect.SelectCase {
	v := reflect.ValueOf(&s.v).Elem()
	return reflect.SelectCase{Dir: reflect.SelectSend, Chan: reflect.ValueOf(s.ch), Send: v}
}
func (s *SendOp[T]) deliverReflect(v reflect.Value, ok bool) {}

// boxed keeps typed nil interface values (e.g. error(nil)) intact through interface{}.
type boxed[T any] struct{ v T }

func unbox[T any](v interface{}) T {
	return v.(boxed[T]).v
}

// partner search: a thread (≠ me) whose pending select/send/recv has a not-yet-completed case on cs
func (x *Exec) findPartner(me *Thread, cs *chanState, wantSend bool) (*Thread, int) {
	for _, t := range x.threads {
		if t == me || t.done || t.completed || t.pending.Kind != OpSelect {
			continue
		}
		for i, c := range t.cases {
			if c.isSend() == wantSend && c.state(x) == cs {
				return t, i
			}
		}
	}
	return nil, -1
}

func (x *Exec) caseReady(me *Thread, c SelCase) bool {
	cs := c.state(x)
	if cs == nil {
		return false // nil channel blocks forever
	}
	if c.isSend() {
		if cs.closed {
			return true // will panic, as in Go
		}
		if len(cs.buf) < cs.cap {
			return true
		}
		if cs.cap == 0 {
			p, _ := x.findPartner(me, cs, false)
			return p != nil
		}
		return false
	}
	if len(cs.buf) > 0 || cs.closed {
		return true
	}
	p, _ := x.findPartner(me, cs, true)
	return p != nil
}

// doSelect is the single implementation behind send, recv and select.
// Returns the index of the case that fired, -1 for default.
func (x *Exec) doSelect(hasDefault bool, cases []SelCase) int {
	me := x.cur
	me.pending = Op{Kind: OpSelect}
	if len(cases) == 1 {
		if cs := cases[0].state(x); cs != nil {
			me.pending.Addr = uintptr(unsafe.Pointer(cs))
		}
	}
	me.cases = cases
	me.completed = false
	me.enabled = func() bool {
		if hasDefault {
			return true
		}
		for _, c := range cases {
			if x.caseReady(me, c) {
				return true
			}
		}
		return false
	}
	x.sched(me)
	me.enabled = nil
	me.cases = nil
	x.progress++
	x.trace(me, me.pending, "")
	if me.completed {
		// a partner performed the rendez-vous for us
		me.completed = false
		return me.selIdx
	}
	var ready []int
	for i, c := range cases {
		if x.caseReady(me, c) {
			ready = append(ready, i)
		}
	}
	if len(ready) == 0 {
		if !hasDefault {
			panic("select scheduled with no ready case")
		}
		return -1
	}
	i := ready[Choose(len(ready))]
	c := cases[i]
	cs := c.state(x)
	if c.isSend() {
		if cs.closed {
			panic("send on closed channel")
		}
		if p, pi := x.findPartner(me, cs, false); p != nil && len(cs.buf) == 0 {
			// direct hand-off to a waiting receiver
			p.cases[pi].deliver(c.sendVal(), true)
			p.completed = true
			p.selIdx = pi
		} else {
			cs.buf = append(cs.buf, c.sendVal())
		}
		return i
	}
	if len(cs.buf) > 0 {
		c.deliver(cs.buf[0], true)
		cs.buf = cs.buf[1:]
		// a sender blocked on the full buffer can now complete
		if p, pi := x.findPartner(me, cs, true); p != nil && len(cs.buf) < cs.cap {
			cs.buf = append(cs.buf, p.cases[pi].sendVal())
			p.completed = true
			p.selIdx = pi
		}
		return i
	}
	if p, pi := x.findPartner(me, cs, true); p != nil {
		c.deliver(p.cases[pi].sendVal(), true)
		p.completed = true
		p.selIdx = pi
		return i
	}
	// closed and empty
	c.deliver(nil, false)
	return i
}

// Select implements a rewritten select statement.
func Select(hasDefault bool, cases ...SelCase) int {
	x := X
	if !x.active() {
		if x != nil {
			panic(abortSentinel{})
		}
		rc := make([]reflect.SelectCase, 0, len(cases)+1)
		for _, c := range cases {
			rc = append(rc, c.reflectCase())
		}
		if hasDefault {
			rc = append(rc, reflect.SelectCase{Dir: reflect.SelectDefault})
		}
		i, v, ok := reflect.Select(rc)
		if i == len(cases) {
			return -1
		}
		cases[i].deliverReflect(v, ok)
		return i
	}
	return x.doSelect(hasDefault, cases)
}

func ChanSend[T any](ch chan T, v T) {
	x := X
	if !x.active() {
		if x != nil {
			return // aborting: drop
		}
		ch <- v
		return
	}
	x.doSelect(false, []SelCase{NewSend(ch, v)})
}

func ChanRecv[T any](ch chan T) T {
	v, _ := ChanRecv2(ch)
	return v
}

func ChanRecv2[T any](ch chan T) (T, bool) {
	x := X
	if !x.active() {
		if x != nil {
			panic(abortSentinel{}) // tear-down: a receive would never return
		}
		v, ok := <-ch
		return v, ok
	}
	r := NewRecv(ch)
	x.doSelect(false, []SelCase{r})
	return r.Val, r.Ok
}

func ChanClose[T any](ch chan T) {
	x := X
	if !x.active() {
		if x != nil {
			return
		}
		close(ch)
		return
	}
	cs := x.chanOf(chanPtr(ch), cap(ch))
	point(OpClose, unsafe.Pointer(cs), 8)
	if cs.closed {
		panic("close of closed channel")
	}
	cs.closed = true
}

// ChanLen is len(ch) for a modelled channel.
func ChanLen[T any](ch chan T) int {
	x := X
	if !x.active() {
		return len(ch)
	}
	cs := x.chanOf(chanPtr(ch), cap(ch))
	if cs == nil {
		return 0
	}
	return len(cs.buf)
}

// ZeroOf returns the zero value of the channel's element type (used by the range rewrite).
func ZeroOf[T any](ch chan T) (z T) { return }
