package vrt

import (
	"time"
)

// CostModel selects how deviations from the default schedule are charged.
type CostModel int

const (
	// Preemption bounding: switching away from a thread that is still enabled costs 1;
	// choices at blocking points, exits and data choices are free.
	CostPreempt CostModel = iota
	// Delay bounding: taking the j-th alternative at any scheduling choice costs j
	// (relative to the deterministic default scheduler); data choices are free.
	CostDelay
)

func (m CostModel) String() string {
	if m == CostDelay {
		return "delay"
	}
	return "preemption"
}

type Opts struct {
	Model    CostModel
	Bound    int
	Horizon  int
	ShardIdx int // this worker explores subtrees with ordinal % ShardN == ShardIdx
	ShardN   int // 0/1 = no sharding
	ShardAt  int // deviation depth at which subtrees are dealt out (default 1)
	Deadline time.Time
	MaxExecs int
	// StopOnViolation ends the search at the first execution for which Check returns a violation.
	StopOnViolation bool
}

// Violation is a failed execution, replayable from Choices.
type Violation struct {
	Verdict Verdict
	Choices []int
}

// Stats of an exploration.
type Stats struct {
	Executions  int // executions owned by this shard
	Replayed    int // executions re-run only to reach owned subtrees (not counted above)
	Transitions int
	Nodes       int // decision nodes expanded (states of the search tree)
	MaxChoices  int
	MaxSwitches int
	Overlapped  int // executions with at least one context switch between harness threads
	Violations  []Violation
	Exhaustive  bool // false if a deadline / execution cap ended the search early
	CapHit      string
}

func costOf(m CostModel, c Choice, alt int) int {
	if c.Data || alt == 0 {
		return 0
	}
	if m == CostDelay {
		return alt
	}
	if c.RunEnabled {
		return 1
	}
	return 0
}

// Explore enumerates all executions of body whose total deviation cost is at most o.Bound.
// check is called after each owned execution and may return a violation verdict (Kind != "").
func Explore(o Opts, body func(), check func(r *Result) Verdict) Stats {
	st := Stats{Exhaustive: true}
	shardAt := o.ShardAt
	if shardAt <= 0 {
		shardAt = 1
	}
	sharded := o.ShardN > 1
	ord := 0
	stop := false
	var rec func(prefix []int, expect []Choice, depth int)
	rec = func(prefix []int, expect []Choice, depth int) {
		if stop {
			return
		}
		if !o.Deadline.IsZero() && time.Now().After(o.Deadline) {
			st.Exhaustive = false
			st.CapHit = "deadline"
			stop = true
			return
		}
		if o.MaxExecs > 0 && st.Executions+st.Replayed >= o.MaxExecs {
			st.Exhaustive = false
			st.CapHit = "max_execs"
			stop = true
			return
		}
		r := Run(prefix, expect, false, o.Horizon, body)
		owned := !sharded || depth >= shardAt || o.ShardIdx == 0
		if owned {
			st.Executions++
			st.Transitions += r.Steps
			if len(r.Choices) > st.MaxChoices {
				st.MaxChoices = len(r.Choices)
			}
			if r.Switches > st.MaxSwitches {
				st.MaxSwitches = r.Switches
			}
			v := r.Verdict
			if v.Kind == "" && len(r.Notes) > 0 {
				v = r.Notes[0]
			}
			if v.Kind == "" && check != nil {
				v = check(&r)
			} else if check != nil {
				check(&r) // let the harness account the outcome
			}
			if v.Kind != "" {
				idx := make([]int, len(r.Choices))
				for i, c := range r.Choices {
					idx[i] = c.Idx
				}
				st.Violations = append(st.Violations, Violation{v, idx})
				if o.StopOnViolation || v.Kind == "nondeterminism" {
					stop = true
					return
				}
			}
		} else {
			st.Replayed++
			if r.Verdict.Kind == "nondeterminism" {
				st.Violations = append(st.Violations, Violation{r.Verdict, append([]int{}, prefix...)})
				stop = true
				return
			}
		}
		cost := 0
		for i := 0; i < len(r.Choices) && !stop; i++ {
			c := r.Choices[i]
			if i >= len(prefix) {
				if owned {
					st.Nodes++
				}
				for alt := 1; alt < c.N; alt++ {
					if cost+costOf(o.Model, c, alt) > o.Bound {
						if o.Model == CostDelay && !c.Data {
							break // larger alternatives only cost more
						}
						continue
					}
					if sharded && depth+1 == shardAt {
						ord++
						if ord%o.ShardN != o.ShardIdx {
							continue
						}
					}
					p := make([]int, i+1)
					for j := 0; j < i; j++ {
						p[j] = r.Choices[j].Idx
					}
					p[i] = alt
					rec(p, r.Choices[:i+1], depth+1)
					if stop {
						break
					}
				}
			}
			cost += costOf(o.Model, c, c.Idx)
		}
	}
	rec(nil, nil, 0)
	return st
}
