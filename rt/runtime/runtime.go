// Package runtime shadows runtime: NumCPU is configurable, Gosched is a yield.
package runtime

import (
	"runtime"

	"github.com/couchbase/nitro/zzverif/vrt"
)

const GOARCH = runtime.GOARCH
const GOOS = runtime.GOOS
const Compiler = runtime.Compiler

type MemStats = runtime.MemStats
type Error = runtime.Error
type Frame = runtime.Frame
type Frames = runtime.Frames
type Func = runtime.Func

// CPUs overrides NumCPU when > 0 (shard count of StoreToDisk).
var CPUs = 0

func NumCPU() int {
	if CPUs > 0 {
		return CPUs
	}
	return runtime.NumCPU()
}
func GOMAXPROCS(n int) int { return runtime.GOMAXPROCS(n) }
func Gosched() {
	if vrt.X == nil {
		runtime.Gosched()
		return
	}
	vrt.Yield()
}
func GC()                                          { runtime.GC() }
func NumGoroutine() int                            { return runtime.NumGoroutine() }
func ReadMemStats(m *MemStats)                     { runtime.ReadMemStats(m) }
func KeepAlive(x interface{})                      { runtime.KeepAlive(x) }
func SetFinalizer(obj, fin interface{})            { runtime.SetFinalizer(obj, fin) }
func Caller(skip int) (uintptr, string, int, bool) { return runtime.Caller(skip + 1) }
func Callers(skip int, pc []uintptr) int           { return runtime.Callers(skip+1, pc) }
func CallersFrames(pc []uintptr) *Frames           { return runtime.CallersFrames(pc) }
func FuncForPC(pc uintptr) *Func                   { return runtime.FuncForPC(pc) }
func Stack(buf []byte, all bool) int               { return runtime.Stack(buf, all) }
func Version() string                              { return runtime.Version() }
func LockOSThread()                                { runtime.LockOSThread() }
func UnlockOSThread()                              { runtime.UnlockOSThread() }
