// Package rand shadows math/rand for the instrumented nitro packages: under
// exploration node levels are chosen by the harness (NextLevel) and every
// other draw is a fixed value, so executions are deterministic. With no
// execution active and no policy installed it delegates to math/rand.
package rand

import (
	"math/rand"

	"github.com/couchbase/nitro/zzverif/vrt"
)

// NextLevel is consulted at the start of every level draw (a run of Float32
// calls that ends with the first value >= p). It returns the level wanted.
// id is -1 for the package-level generator (internal skiplists), otherwise the
// creation index of the generator since the last Reset (writers, segments).
var NextLevel func(id int) int

var nextID int

type Source = rand.Source

// lazySource defers the (expensive) seeding of the real generator until a value is drawn; under
// exploration no value is ever drawn from it.
type lazySource struct {
	seed int64
	real rand.Source
}

func (l *lazySource) src() rand.Source {
	if l.real == nil {
		l.real = rand.NewSource(l.seed)
	}
	return l.real
}
func (l *lazySource) Int63() int64    { return l.src().Int63() }
func (l *lazySource) Seed(seed int64) { l.seed = seed; l.real = nil }
func (l *lazySource) Uint64() uint64 {
	if s64, ok := l.src().(rand.Source64); ok {
		return s64.Uint64()
	}
	return uint64(l.src().Int63())
}

func NewSource(seed int64) Source { return &lazySource{seed: seed} }

type Rand struct {
	real      *rand.Rand
	remaining int
	fresh     bool
	global    bool
	id        int
}

func New(s Source) *Rand {
	r := &Rand{real: rand.New(s), fresh: true, id: nextID}
	nextID++
	return r
}

var global = &Rand{fresh: true, global: true, id: -1}

func controlled() bool { return NextLevel != nil || vrt.X != nil }

func (r *Rand) Float32() float32 {
	if !controlled() {
		if r.global {
			return rand.Float32()
		}
		return r.real.Float32()
	}
	if r.fresh {
		r.fresh = false
		r.remaining = 0
		if NextLevel != nil {
			r.remaining = NextLevel(r.id)
		}
	}
	if r.remaining > 0 {
		r.remaining--
		return 0
	}
	r.fresh = true
	return 1
}

func (r *Rand) Float64() float64 { return float64(r.Float32()) }

func (r *Rand) Int() int {
	if !controlled() {
		if r.global {
			return rand.Int()
		}
		return r.real.Int()
	}
	return 4
}
func (r *Rand) Intn(n int) int {
	if !controlled() {
		if r.global {
			return rand.Intn(n)
		}
		return r.real.Intn(n)
	}
	return 0
}
func (r *Rand) Int63() int64         { return int64(r.Int()) }
func (r *Rand) Int31() int32         { return int32(r.Int()) }
func (r *Rand) Uint32() uint32       { return uint32(r.Int()) }
func (r *Rand) Uint64() uint64       { return uint64(r.Int()) }
func (r *Rand) Int63n(n int64) int64 { return int64(r.Intn(int(n))) }
func (r *Rand) Int31n(n int32) int32 { return int32(r.Intn(int(n))) }
func (r *Rand) Seed(seed int64) {
	if r.real != nil {
		r.real.Seed(seed)
	}
}
func (r *Rand) Perm(n int) []int {
	if !controlled() {
		if r.global {
			return rand.Perm(n)
		}
		return r.real.Perm(n)
	}
	p := make([]int, n)
	for i := range p {
		p[i] = i
	}
	return p
}

func Float32() float32     { return global.Float32() }
func Float64() float64     { return global.Float64() }
func Int() int             { return global.Int() }
func Intn(n int) int       { return global.Intn(n) }
func Int63() int64         { return global.Int63() }
func Int31() int32         { return global.Int31() }
func Uint32() uint32       { return global.Uint32() }
func Uint64() uint64       { return global.Uint64() }
func Int63n(n int64) int64 { return global.Int63n(n) }
func Int31n(n int32) int32 { return global.Int31n(n) }
func Perm(n int) []int     { return global.Perm(n) }
func Seed(seed int64)      { rand.Seed(seed) }

// PeekNextID returns the id the next generator created by New will get.
func PeekNextID() int { return nextID }

// ResetGlobal puts the package-level generator back into its initial state (between executions).
func ResetGlobal() { global.fresh = true; global.remaining = 0; nextID = 0 }
