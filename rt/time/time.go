// Package time shadows time: Sleep is a yield decided by the scheduler.
package time

import (
	"time"

	"github.com/couchbase/nitro/zzverif/vrt"
)

type Duration = time.Duration
type Time = time.Time
type Timer = time.Timer
type Ticker = time.Ticker
type Month = time.Month
type Weekday = time.Weekday
type Location = time.Location

const (
	Nanosecond  = time.Nanosecond
	Microsecond = time.Microsecond
	Millisecond = time.Millisecond
	Second      = time.Second
	Minute      = time.Minute
	Hour        = time.Hour
	RFC3339     = time.RFC3339
)

var UTC = time.UTC

func Now() Time                                { return time.Now() }
func Since(t Time) Duration                    { return time.Since(t) }
func Until(t Time) Duration                    { return time.Until(t) }
func Unix(s, ns int64) Time                    { return time.Unix(s, ns) }
func After(d Duration) <-chan Time             { return time.After(d) }
func Tick(d Duration) <-chan Time              { return time.Tick(d) }
func NewTimer(d Duration) *Timer               { return time.NewTimer(d) }
func NewTicker(d Duration) *Ticker             { return time.NewTicker(d) }
func AfterFunc(d Duration, f func()) *Timer    { return time.AfterFunc(d, f) }
func ParseDuration(s string) (Duration, error) { return time.ParseDuration(s) }

func Sleep(d Duration) {
	if vrt.X == nil {
		time.Sleep(d)
		return
	}
	vrt.Yield()
}
