// Package ioutil shadows io/ioutil: file helpers go through the shadow os package.
package ioutil

import (
	"io"

	vos "github.com/couchbase/nitro/zzverif/os"
)

var Discard = io.Discard

func ReadAll(r io.Reader) ([]byte, error)  { return io.ReadAll(r) }
func NopCloser(r io.Reader) io.ReadCloser  { return io.NopCloser(r) }
func ReadFile(name string) ([]byte, error) { return vos.ReadFile(name) }
func WriteFile(name string, data []byte, perm vos.FileMode) error {
	return vos.WriteFile(name, data, perm)
}
func TempDir(dir, pattern string) (string, error) { return vos.MkdirTemp(dir, pattern) }
func ReadDir(name string) ([]vos.FileInfo, error) {
	es, err := vos.ReadDir(name)
	if err != nil {
		return nil, err
	}
	var out []vos.FileInfo
	for _, e := range es {
		fi, err := e.Info()
		if err != nil {
			return nil, err
		}
		out = append(out, fi)
	}
	return out, nil
}
