// Package os shadows os for the instrumented nitro packages. When FS is set
// all file operations act on an in-memory file system that logs every
// mutation (for crash-image enumeration) and injects faults from a plan;
// otherwise everything passes through to the real os package.
package os

import (
	"io"
	"io/fs"
	"os"
	"path/filepath"
	"sort"
	"strings"
	"syscall"
	"time"
	"unsafe"

	"github.com/couchbase/nitro/zzverif/vrt"
)

type FileInfo = fs.FileInfo
type FileMode = fs.FileMode
type PathError = fs.PathError
type DirEntry = fs.DirEntry
type Signal = os.Signal
type SyscallError = os.SyscallError
type LinkError = os.LinkError

const (
	O_RDONLY = os.O_RDONLY
	O_WRONLY = os.O_WRONLY
	O_RDWR   = os.O_RDWR
	O_APPEND = os.O_APPEND
	O_CREATE = os.O_CREATE
	O_EXCL   = os.O_EXCL
	O_SYNC   = os.O_SYNC
	O_TRUNC  = os.O_TRUNC

	ModePerm      = os.ModePerm
	ModeDir       = os.ModeDir
	PathSeparator = os.PathSeparator
	SEEK_SET      = 0
	SEEK_CUR      = 1
	SEEK_END      = 2
	DevNull       = os.DevNull
)

var (
	ErrNotExist   = os.ErrNotExist
	ErrExist      = os.ErrExist
	ErrPermission = os.ErrPermission
	ErrClosed     = os.ErrClosed
	ErrInvalid    = os.ErrInvalid
	Stdin         = os.Stdin
	Stdout        = os.Stdout
	Stderr        = os.Stderr
	Args          = os.Args
	Interrupt     = os.Interrupt
	Kill          = os.Kill
)

func IsNotExist(err error) bool               { return os.IsNotExist(err) }
func IsExist(err error) bool                  { return os.IsExist(err) }
func IsPermission(err error) bool             { return os.IsPermission(err) }
func IsTimeout(err error) bool                { return os.IsTimeout(err) }
func Getenv(k string) string                  { return os.Getenv(k) }
func LookupEnv(k string) (string, bool)       { return os.LookupEnv(k) }
func Setenv(k, v string) error                { return os.Setenv(k, v) }
func Exit(c int)                              { os.Exit(c) }
func Getpid() int                             { return os.Getpid() }
func Getwd() (string, error)                  { return os.Getwd() }
func TempDir() string                         { return os.TempDir() }
func Hostname() (string, error)               { return os.Hostname() }
func Getpagesize() int                        { return os.Getpagesize() }
func NewSyscallError(s string, e error) error { return os.NewSyscallError(s, e) }

// ---- in-memory file system ----

// Mutation is one logged change of the in-memory file system.
type Mutation struct {
	Op   string // mkdir, create, truncate, write, close, remove, rename, sync
	Path string
	Off  int64
	Data []byte
	To   string
}

// Fault makes the K-th (1-based) operation of Kind fail. Kinds: write, close, create, mkdir, sync, rename.
type Fault struct {
	Kind string
	K    int
}

type memFile struct {
	data []byte
}

// MemFS is the in-memory file system. Not safe for real concurrency: the cooperative
// scheduler runs one thread at a time.
type MemFS struct {
	Files map[string]*memFile
	Dirs  map[string]bool
	Log   []Mutation
	// ByteBudget < 0: unlimited; otherwise number of bytes that may still be written
	// before writes fail with ENOSPC (the failing write is partial).
	ByteBudget int
	Faults     []Fault
	counts     map[string]int
	Injected   int // number of faults actually injected
	OpenFiles  int
}

// FS is the active in-memory file system (nil = real os).
var FS *MemFS

func NewMemFS() *MemFS {
	return &MemFS{Files: map[string]*memFile{}, Dirs: map[string]bool{"/": true}, ByteBudget: -1, counts: map[string]int{}}
}

func clean(p string) string {
	p = filepath.Clean(p)
	if !strings.HasPrefix(p, "/") {
		p = "/" + p
	}
	return p
}

func (m *MemFS) fault(kind string) bool {
	m.counts[kind]++
	for _, f := range m.Faults {
		if f.Kind == kind && f.K == m.counts[kind] {
			m.Injected++
			return true
		}
	}
	return false
}

func (m *MemFS) log(mu Mutation) { m.Log = append(m.Log, mu) }

// Apply performs a logged mutation on m without logging or fault injection.
func (m *MemFS) Apply(mu Mutation) {
	switch mu.Op {
	case "mkdir":
		m.Dirs[mu.Path] = true
	case "create":
		if m.Files[mu.Path] == nil {
			m.Files[mu.Path] = &memFile{}
		}
	case "truncate":
		if f := m.Files[mu.Path]; f != nil {
			if int(mu.Off) <= len(f.data) {
				f.data = f.data[:mu.Off]
			} else {
				f.data = append(f.data, make([]byte, int(mu.Off)-len(f.data))...)
			}
		}
	case "write":
		f := m.Files[mu.Path]
		if f == nil {
			return
		}
		end := int(mu.Off) + len(mu.Data)
		if end > len(f.data) {
			f.data = append(f.data, make([]byte, end-len(f.data))...)
		}
		copy(f.data[mu.Off:], mu.Data)
	case "remove":
		delete(m.Files, mu.Path)
		delete(m.Dirs, mu.Path)
	case "removeall":
		for p := range m.Files {
			if p == mu.Path || strings.HasPrefix(p, mu.Path+"/") {
				delete(m.Files, p)
			}
		}
		for p := range m.Dirs {
			if p == mu.Path || strings.HasPrefix(p, mu.Path+"/") {
				delete(m.Dirs, p)
			}
		}
	case "rename":
		if f := m.Files[mu.Path]; f != nil {
			m.Files[mu.To] = f
			delete(m.Files, mu.Path)
		}
	}
}

// Replay builds the file system image after the given mutations.
func Replay(log []Mutation) *MemFS {
	m := NewMemFS()
	for _, mu := range log {
		m.Apply(mu)
	}
	return m
}

// Clone returns a deep copy of the image (log and fault plan are not copied).
func (m *MemFS) Clone() *MemFS {
	c := NewMemFS()
	for p, f := range m.Files {
		c.Files[p] = &memFile{data: append([]byte(nil), f.data...)}
	}
	for d := range m.Dirs {
		c.Dirs[d] = true
	}
	return c
}

// Paths returns all file paths, sorted.
func (m *MemFS) Paths() []string {
	var ps []string
	for p := range m.Files {
		ps = append(ps, p)
	}
	sort.Strings(ps)
	return ps
}

// Get returns the content of a file (nil, false if absent).
func (m *MemFS) Get(p string) ([]byte, bool) {
	f := m.Files[clean(p)]
	if f == nil {
		return nil, false
	}
	return f.data, true
}

// Put sets the content of a file, creating parent directories (harness use; not logged).
func (m *MemFS) Put(p string, data []byte) {
	p = clean(p)
	for d := filepath.Dir(p); ; d = filepath.Dir(d) {
		m.Dirs[d] = true
		if d == "/" {
			break
		}
	}
	m.Files[p] = &memFile{data: append([]byte(nil), data...)}
}

// Delete removes a file (harness use; not logged).
func (m *MemFS) Delete(p string) { delete(m.Files, clean(p)) }

func notExist(op, p string) error { return &PathError{Op: op, Path: p, Err: syscall.ENOENT} }

func ioPoint(p unsafe.Pointer) { vrt.Point(vrt.OpIO, p, 0) }

// ---- File ----

type File struct {
	real   *os.File
	m      *MemFS
	path   string
	off    int64
	flag   int
	closed bool
}

func wrap(f *os.File, err error) (*File, error) {
	if err != nil {
		return nil, err
	}
	return &File{real: f}, nil
}

func Open(name string) (*File, error) { return OpenFile(name, O_RDONLY, 0) }
func Create(name string) (*File, error) {
	return OpenFile(name, O_RDWR|O_CREATE|O_TRUNC, 0666)
}

func OpenFile(name string, flag int, perm FileMode) (*File, error) {
	m := FS
	if m == nil {
		return wrap(os.OpenFile(name, flag, perm))
	}
	ioPoint(unsafe.Pointer(m))
	p := clean(name)
	if m.Dirs[p] {
		if flag&(O_WRONLY|O_RDWR) != 0 {
			return nil, &PathError{Op: "open", Path: name, Err: syscall.EISDIR}
		}
		return &File{m: m, path: p, flag: flag}, nil
	}
	f := m.Files[p]
	if f == nil {
		if flag&O_CREATE == 0 {
			return nil, notExist("open", name)
		}
		if !m.Dirs[filepath.Dir(p)] {
			return nil, notExist("open", name)
		}
		if m.fault("create") {
			return nil, &PathError{Op: "open", Path: name, Err: syscall.ENOSPC}
		}
		m.Apply(Mutation{Op: "create", Path: p})
		m.log(Mutation{Op: "create", Path: p})
	} else if flag&O_CREATE != 0 && flag&O_EXCL != 0 {
		return nil, &PathError{Op: "open", Path: name, Err: syscall.EEXIST}
	}
	if flag&O_TRUNC != 0 && f != nil && len(f.data) > 0 {
		m.Apply(Mutation{Op: "truncate", Path: p})
		m.log(Mutation{Op: "truncate", Path: p})
	}
	m.OpenFiles++
	return &File{m: m, path: p, flag: flag}, nil
}

func (f *File) Name() string {
	if f.real != nil {
		return f.real.Name()
	}
	return f.path
}

func (f *File) Fd() uintptr {
	if f.real != nil {
		return f.real.Fd()
	}
	return ^uintptr(0)
}

func (f *File) Write(b []byte) (int, error) {
	if f.real != nil {
		return f.real.Write(b)
	}
	if f.closed {
		return 0, &PathError{Op: "write", Path: f.path, Err: os.ErrClosed}
	}
	if f.flag&(O_WRONLY|O_RDWR) == 0 {
		return 0, &PathError{Op: "write", Path: f.path, Err: syscall.EBADF}
	}
	m := f.m
	ioPoint(unsafe.Pointer(m))
	mf := m.Files[f.path]
	if mf == nil {
		// unlinked while open: writes go nowhere
		return len(b), nil
	}
	if f.flag&O_APPEND != 0 {
		f.off = int64(len(mf.data))
	}
	if m.fault("write") {
		return 0, &PathError{Op: "write", Path: f.path, Err: syscall.EIO}
	}
	n := len(b)
	var err error
	if m.ByteBudget >= 0 && n > m.ByteBudget {
		n = m.ByteBudget
		err = &PathError{Op: "write", Path: f.path, Err: syscall.ENOSPC}
		m.Injected++
	}
	if m.ByteBudget >= 0 {
		m.ByteBudget -= n
	}
	if n > 0 {
		mu := Mutation{Op: "write", Path: f.path, Off: f.off, Data: append([]byte(nil), b[:n]...)}
		m.Apply(mu)
		m.log(mu)
		f.off += int64(n)
	}
	return n, err
}

func (f *File) WriteString(s string) (int, error) { return f.Write([]byte(s)) }

func (f *File) WriteAt(b []byte, off int64) (int, error) {
	if f.real != nil {
		return f.real.WriteAt(b, off)
	}
	save := f.off
	f.off = off
	n, err := f.Write(b)
	f.off = save
	return n, err
}

func (f *File) Read(b []byte) (int, error) {
	if f.real != nil {
		return f.real.Read(b)
	}
	if f.closed {
		return 0, &PathError{Op: "read", Path: f.path, Err: os.ErrClosed}
	}
	mf := f.m.Files[f.path]
	if mf == nil {
		if f.m.Dirs[f.path] {
			return 0, &PathError{Op: "read", Path: f.path, Err: syscall.EISDIR}
		}
		return 0, io.EOF
	}
	if len(b) == 0 {
		return 0, nil
	}
	if f.off >= int64(len(mf.data)) {
		return 0, io.EOF
	}
	n := copy(b, mf.data[f.off:])
	f.off += int64(n)
	return n, nil
}

func (f *File) ReadAt(b []byte, off int64) (int, error) {
	if f.real != nil {
		return f.real.ReadAt(b, off)
	}
	mf := f.m.Files[f.path]
	if mf == nil || off >= int64(len(mf.data)) {
		return 0, io.EOF
	}
	n := copy(b, mf.data[off:])
	if n < len(b) {
		return n, io.EOF
	}
	return n, nil
}

func (f *File) Seek(offset int64, whence int) (int64, error) {
	if f.real != nil {
		return f.real.Seek(offset, whence)
	}
	var sz int64
	if mf := f.m.Files[f.path]; mf != nil {
		sz = int64(len(mf.data))
	}
	switch whence {
	case 0:
		f.off = offset
	case 1:
		f.off += offset
	case 2:
		f.off = sz + offset
	}
	if f.off < 0 {
		f.off = 0
		return 0, &PathError{Op: "seek", Path: f.path, Err: syscall.EINVAL}
	}
	return f.off, nil
}

func (f *File) Truncate(size int64) error {
	if f.real != nil {
		return f.real.Truncate(size)
	}
	ioPoint(unsafe.Pointer(f.m))
	mu := Mutation{Op: "truncate", Path: f.path, Off: size}
	f.m.Apply(mu)
	f.m.log(mu)
	return nil
}

func (f *File) Sync() error {
	if f.real != nil {
		return f.real.Sync()
	}
	ioPoint(unsafe.Pointer(f.m))
	if f.m.fault("sync") {
		return &PathError{Op: "sync", Path: f.path, Err: syscall.EIO}
	}
	f.m.log(Mutation{Op: "sync", Path: f.path})
	return nil
}

func (f *File) Close() error {
	if f == nil {
		return os.ErrInvalid
	}
	if f.real != nil {
		return f.real.Close()
	}
	if f.closed {
		return &PathError{Op: "close", Path: f.path, Err: os.ErrClosed}
	}
	ioPoint(unsafe.Pointer(f.m))
	f.closed = true
	f.m.OpenFiles--
	if f.flag&(O_WRONLY|O_RDWR) != 0 {
		if f.m.fault("close") {
			return &PathError{Op: "close", Path: f.path, Err: syscall.EIO}
		}
		f.m.log(Mutation{Op: "close", Path: f.path})
	}
	return nil
}

type memInfo struct {
	name string
	size int64
	dir  bool
}

func (i memInfo) Name() string { return i.name }
func (i memInfo) Size() int64  { return i.size }
func (i memInfo) Mode() FileMode {
	if i.dir {
		return ModeDir | 0755
	}
	return 0644
}
func (i memInfo) ModTime() time.Time { return time.Time{} }
func (i memInfo) IsDir() bool        { return i.dir }
func (i memInfo) Sys() interface{}   { return nil }

func (f *File) Stat() (FileInfo, error) {
	if f.real != nil {
		return f.real.Stat()
	}
	return f.m.stat(f.path, f.path)
}

func (m *MemFS) stat(p, name string) (FileInfo, error) {
	if m.Dirs[p] {
		return memInfo{name: filepath.Base(p), dir: true}, nil
	}
	if mf := m.Files[p]; mf != nil {
		return memInfo{name: filepath.Base(p), size: int64(len(mf.data))}, nil
	}
	return nil, notExist("stat", name)
}

func (f *File) Readdirnames(n int) ([]string, error) {
	if f.real != nil {
		return f.real.Readdirnames(n)
	}
	var names []string
	for p := range f.m.Files {
		if filepath.Dir(p) == f.path {
			names = append(names, filepath.Base(p))
		}
	}
	for p := range f.m.Dirs {
		if p != "/" && filepath.Dir(p) == f.path {
			names = append(names, filepath.Base(p))
		}
	}
	sort.Strings(names)
	return names, nil
}

func Stat(name string) (FileInfo, error) {
	if m := FS; m != nil {
		return m.stat(clean(name), name)
	}
	return os.Stat(name)
}

func Lstat(name string) (FileInfo, error) {
	if m := FS; m != nil {
		return m.stat(clean(name), name)
	}
	return os.Lstat(name)
}

func Mkdir(name string, perm FileMode) error {
	m := FS
	if m == nil {
		return os.Mkdir(name, perm)
	}
	ioPoint(unsafe.Pointer(m))
	p := clean(name)
	if m.Dirs[p] || m.Files[p] != nil {
		return &PathError{Op: "mkdir", Path: name, Err: syscall.EEXIST}
	}
	if !m.Dirs[filepath.Dir(p)] {
		return notExist("mkdir", name)
	}
	if m.fault("mkdir") {
		return &PathError{Op: "mkdir", Path: name, Err: syscall.ENOSPC}
	}
	m.Apply(Mutation{Op: "mkdir", Path: p})
	m.log(Mutation{Op: "mkdir", Path: p})
	return nil
}

func MkdirAll(name string, perm FileMode) error {
	m := FS
	if m == nil {
		return os.MkdirAll(name, perm)
	}
	p := clean(name)
	if m.Dirs[p] {
		return nil
	}
	if m.Files[p] != nil {
		return &PathError{Op: "mkdir", Path: name, Err: syscall.ENOTDIR}
	}
	if parent := filepath.Dir(p); parent != p {
		if err := MkdirAll(parent, perm); err != nil {
			return err
		}
	}
	return Mkdir(p, perm)
}

func Remove(name string) error {
	m := FS
	if m == nil {
		return os.Remove(name)
	}
	ioPoint(unsafe.Pointer(m))
	p := clean(name)
	if m.Files[p] == nil && !m.Dirs[p] {
		return notExist("remove", name)
	}
	m.Apply(Mutation{Op: "remove", Path: p})
	m.log(Mutation{Op: "remove", Path: p})
	return nil
}

func RemoveAll(name string) error {
	m := FS
	if m == nil {
		return os.RemoveAll(name)
	}
	ioPoint(unsafe.Pointer(m))
	p := clean(name)
	m.Apply(Mutation{Op: "removeall", Path: p})
	m.log(Mutation{Op: "removeall", Path: p})
	return nil
}

func Rename(from, to string) error {
	m := FS
	if m == nil {
		return os.Rename(from, to)
	}
	ioPoint(unsafe.Pointer(m))
	a, b := clean(from), clean(to)
	if m.Files[a] == nil {
		return &LinkError{Op: "rename", Old: from, New: to, Err: syscall.ENOENT}
	}
	if m.fault("rename") {
		return &LinkError{Op: "rename", Old: from, New: to, Err: syscall.EIO}
	}
	mu := Mutation{Op: "rename", Path: a, To: b}
	m.Apply(mu)
	m.log(mu)
	return nil
}

func Truncate(name string, size int64) error {
	m := FS
	if m == nil {
		return os.Truncate(name, size)
	}
	f, err := OpenFile(name, O_WRONLY, 0)
	if err != nil {
		return err
	}
	defer f.Close()
	return f.Truncate(size)
}

func ReadFile(name string) ([]byte, error) {
	m := FS
	if m == nil {
		return os.ReadFile(name)
	}
	ioPoint(unsafe.Pointer(m))
	p := clean(name)
	if m.Dirs[p] {
		return nil, &PathError{Op: "read", Path: name, Err: syscall.EISDIR}
	}
	mf := m.Files[p]
	if mf == nil {
		return nil, notExist("open", name)
	}
	return append([]byte(nil), mf.data...), nil
}

func WriteFile(name string, data []byte, perm FileMode) error {
	if FS == nil {
		return os.WriteFile(name, data, perm)
	}
	f, err := OpenFile(name, O_WRONLY|O_CREATE|O_TRUNC, perm)
	if err != nil {
		return err
	}
	_, err = f.Write(data)
	if err1 := f.Close(); err1 != nil && err == nil {
		err = err1
	}
	return err
}

type memDirEntry struct{ memInfo }

func (e memDirEntry) Type() FileMode          { return e.Mode().Type() }
func (e memDirEntry) Info() (FileInfo, error) { return e.memInfo, nil }

func ReadDir(name string) ([]DirEntry, error) {
	m := FS
	if m == nil {
		return os.ReadDir(name)
	}
	p := clean(name)
	if !m.Dirs[p] {
		return nil, notExist("open", name)
	}
	var es []DirEntry
	for fp, mf := range m.Files {
		if filepath.Dir(fp) == p {
			es = append(es, memDirEntry{memInfo{name: filepath.Base(fp), size: int64(len(mf.data))}})
		}
	}
	for dp := range m.Dirs {
		if dp != "/" && filepath.Dir(dp) == p {
			es = append(es, memDirEntry{memInfo{name: filepath.Base(dp), dir: true}})
		}
	}
	sort.Slice(es, func(i, j int) bool { return es[i].Name() < es[j].Name() })
	return es, nil
}

func MkdirTemp(dir, pattern string) (string, error) {
	if FS == nil {
		return os.MkdirTemp(dir, pattern)
	}
	p := clean(filepath.Join(dir, pattern+"tmp"))
	return p, MkdirAll(p, 0755)
}
